import Micm.Lemmas.MixedOrders
import Mathlib.Algebra.Field.Rat

/-!
C03 (continued) — sparse LU with the lower and the upper matrix stored in their *own* orders.

The C++ lets `state.lower_matrix_` and `state.upper_matrix_` use orderings different from the
Jacobian's and from each other (e.g. `A` in CSR, `L` in CSC, `U` in CSR).  The model of that
configuration is `LinAlg.buildMixed kind jac cscL cscU` (`Micm/Model/LU.lean`): the symbolic
factorisation of `jac`, `Lp := Pattern.mk' jac.n cscL jac.L l`, `Up := Pattern.mk' jac.n cscU jac.L u`
and the `Initialize` tables built from the ranks of *these* patterns.  `kind = .mozart` gives the
Mozart tables, every other kind the Doolittle tables.

Everything below is for an arbitrary `jac : Pattern` (any order, any layout; the Mozart variant
needs its diagonal to be present), arbitrary `cscL cscU : Bool`, an arbitrary cell array `a` of
`A`-values over a field `K`, and ARBITRARY prior contents `l0`, `u0` of the `L`/`U` storage (only
their sizes are fixed: `nnz` of the respective pattern).  `view p x r c` is the logical matrix the
rank-indexed array `x` holds under pattern `p` (absent elements read as `0`).
-/
open Finset
namespace Micm
variable {K : Type} [Field K]

/-- C03 (mixed orders), the factors are the dense Doolittle factors: for every `kind`, the views
    of the arrays computed by the kernel (`mozartCell la.mInit la.mRows` for `.mozart`,
    `doolittleCell la.dRows` otherwise) through `la.Lp` / `la.Up` are `DenseLU.lu (view jac a)`;
    in particular they vanish outside the patterns.  The full diagonal is only needed for Mozart. -/
theorem C03_mixed_view (kind : LUKind) (jac : Pattern) (cscL cscU : Bool)
    (hdiag : kind = .mozart → ∀ i, i < jac.n → jac.zero? i i = false) (a l0 u0 : Array K) :
    let la := LinAlg.buildMixed kind jac cscL cscU
    let LU := match kind with
      | .mozart => mozartCell la.mInit la.mRows a (l0, u0)
      | _ => doolittleCell la.dRows a (l0, u0)
    l0.size = la.Lp.nnz → u0.size = la.Up.nnz →
    ∀ r c, r < jac.n → c < jac.n →
      view la.Lp LU.1 r c = (DenseLU.lu (view jac a) jac.n).L r c ∧
      view la.Up LU.2 r c = (DenseLU.lu (view jac a) jac.n).U r c := by
  intro la LU hLs hUs
  exact buildMixed_view kind jac cscL cscU hdiag a l0 u0 hLs hUs

/-- C03 (mixed orders), `L·U = A`: for every `kind`, every Jacobian pattern with a full diagonal
    (only needed for Mozart; Doolittle's `GetLUMatrices` adds the diagonal itself), every pair of
    storage orders for `L` and `U`, every prior contents of the `L`/`U` arrays: if no pivot
    (diagonal element of the computed `U`) vanishes, the logical matrices held by the result are a
    unit lower triangular `L` and an upper triangular `U` with `L·U = A` on the block. -/
theorem C03_mixed_LU (kind : LUKind) (jac : Pattern) (cscL cscU : Bool)
    (hdiag : kind = .mozart → ∀ i, i < jac.n → jac.zero? i i = false) (a l0 u0 : Array K) :
    let la := LinAlg.buildMixed kind jac cscL cscU
    let LU := match kind with
      | .mozart => mozartCell la.mInit la.mRows a (l0, u0)
      | _ => doolittleCell la.dRows a (l0, u0)
    l0.size = la.Lp.nnz → u0.size = la.Up.nnz →
    (∀ i, i < jac.n → view la.Up LU.2 i i ≠ 0) →
    DenseLU.IsLU jac.n (view jac a) (view la.Lp LU.1) (view la.Up LU.2) := by
  intro la LU hLs hUs hpiv
  exact IsLU_of_views (view jac a) la.Lp la.Up LU.1 LU.2
    (buildMixed_view kind jac cscL cscU hdiag a l0 u0 hLs hUs) hpiv

/-- the same with the kernels written out.  Doolittle (any `kind ≠ .mozart`; no hypothesis on the
    Jacobian pattern at all: `GetLUMatrices` adds the diagonal itself) -/
theorem C03_mixed_doolittle_LU (jac : Pattern) (cscL cscU : Bool) (a l0 u0 : Array K)
    (hLs : l0.size = (LinAlg.buildMixed .doolittle jac cscL cscU).Lp.nnz)
    (hUs : u0.size = (LinAlg.buildMixed .doolittle jac cscL cscU).Up.nnz)
    (hpiv : ∀ i, i < jac.n → view (LinAlg.buildMixed .doolittle jac cscL cscU).Up
      (doolittleCell (LinAlg.buildMixed .doolittle jac cscL cscU).dRows a (l0, u0)).2 i i ≠ 0) :
    DenseLU.IsLU jac.n (view jac a)
      (view (LinAlg.buildMixed .doolittle jac cscL cscU).Lp
        (doolittleCell (LinAlg.buildMixed .doolittle jac cscL cscU).dRows a (l0, u0)).1)
      (view (LinAlg.buildMixed .doolittle jac cscL cscU).Up
        (doolittleCell (LinAlg.buildMixed .doolittle jac cscL cscU).dRows a (l0, u0)).2) :=
  IsLU_of_views (view jac a) _ _ _ _ (buildMixed_doolittle_view jac cscL cscU a l0 u0 hLs hUs) hpiv

/-- Mozart -/
theorem C03_mixed_mozart_LU (jac : Pattern) (cscL cscU : Bool)
    (hdiag : ∀ i, i < jac.n → jac.zero? i i = false) (a l0 u0 : Array K)
    (hLs : l0.size = (LinAlg.buildMixed .mozart jac cscL cscU).Lp.nnz)
    (hUs : u0.size = (LinAlg.buildMixed .mozart jac cscL cscU).Up.nnz)
    (hpiv : ∀ i, i < jac.n → view (LinAlg.buildMixed .mozart jac cscL cscU).Up
      (mozartCell (LinAlg.buildMixed .mozart jac cscL cscU).mInit
        (LinAlg.buildMixed .mozart jac cscL cscU).mRows a (l0, u0)).2 i i ≠ 0) :
    DenseLU.IsLU jac.n (view jac a)
      (view (LinAlg.buildMixed .mozart jac cscL cscU).Lp
        (mozartCell (LinAlg.buildMixed .mozart jac cscL cscU).mInit
          (LinAlg.buildMixed .mozart jac cscL cscU).mRows a (l0, u0)).1)
      (view (LinAlg.buildMixed .mozart jac cscL cscU).Up
        (mozartCell (LinAlg.buildMixed .mozart jac cscL cscU).mInit
          (LinAlg.buildMixed .mozart jac cscL cscU).mRows a (l0, u0)).2) :=
  IsLU_of_views (view jac a) _ _ _ _
    (buildMixed_mozart_view jac cscL cscU hdiag a l0 u0 hLs hUs) hpiv

/-- C03 (mixed orders): the logical factors depend neither on the storage orders chosen for `L`
    and `U` nor on the prior contents of the storage: two runs with orders `(cscL, cscU)`,
    `(cscL', cscU')` and prior contents `(l0, u0)`, `(l0', u0')` give the same `L` and `U`.
    (No pivot hypothesis: in exact arithmetic with `x / 0 = 0` the two runs agree even then.) -/
theorem C03_mixed_indep_of_orders (kind : LUKind) (jac : Pattern) (cscL cscU cscL' cscU' : Bool)
    (hdiag : kind = .mozart → ∀ i, i < jac.n → jac.zero? i i = false)
    (a l0 u0 l0' u0' : Array K) :
    let la := LinAlg.buildMixed kind jac cscL cscU
    let la' := LinAlg.buildMixed kind jac cscL' cscU'
    let LU := match kind with
      | .mozart => mozartCell la.mInit la.mRows a (l0, u0)
      | _ => doolittleCell la.dRows a (l0, u0)
    let LU' := match kind with
      | .mozart => mozartCell la'.mInit la'.mRows a (l0', u0')
      | _ => doolittleCell la'.dRows a (l0', u0')
    l0.size = la.Lp.nnz → u0.size = la.Up.nnz → l0'.size = la'.Lp.nnz → u0'.size = la'.Up.nnz →
    ∀ r c, r < jac.n → c < jac.n →
      view la.Lp LU.1 r c = view la'.Lp LU'.1 r c ∧ view la.Up LU.2 r c = view la'.Up LU'.2 r c := by
  intro la la' LU LU' hLs hUs hLs' hUs' r c hr hc
  have h1 := buildMixed_view kind jac cscL cscU hdiag a l0 u0 hLs hUs r c hr hc
  have h2 := buildMixed_view kind jac cscL' cscU' hdiag a l0' u0' hLs' hUs' r c hr hc
  exact ⟨h1.1.trans h2.1.symm, h1.2.trans h2.2.symm⟩

/-- … and they are the factors computed with `LinAlg.build` (`L`, `U` in the Jacobian's order) -/
theorem C03_mixed_eq_build_doolittle (jac : Pattern) (cscL cscU : Bool)
    (a l0 u0 l0' u0' : Array K)
    (hLs : l0.size = (LinAlg.buildMixed .doolittle jac cscL cscU).Lp.nnz)
    (hUs : u0.size = (LinAlg.buildMixed .doolittle jac cscL cscU).Up.nnz)
    (hLs' : l0'.size = (LinAlg.build .doolittle jac).Lp.nnz)
    (hUs' : u0'.size = (LinAlg.build .doolittle jac).Up.nnz) :
    ∀ r c, r < jac.n → c < jac.n →
      view (LinAlg.buildMixed .doolittle jac cscL cscU).Lp
          (doolittleCell (LinAlg.buildMixed .doolittle jac cscL cscU).dRows a (l0, u0)).1 r c
        = view (LinAlg.build .doolittle jac).Lp
          (doolittleCell (LinAlg.build .doolittle jac).dRows a (l0', u0')).1 r c ∧
      view (LinAlg.buildMixed .doolittle jac cscL cscU).Up
          (doolittleCell (LinAlg.buildMixed .doolittle jac cscL cscU).dRows a (l0, u0)).2 r c
        = view (LinAlg.build .doolittle jac).Up
          (doolittleCell (LinAlg.build .doolittle jac).dRows a (l0', u0')).2 r c := by
  intro r c hr hc
  have h1 := buildMixed_doolittle_view jac cscL cscU a l0 u0 hLs hUs r c hr hc
  have h2 := C03_build_doolittle jac a l0' u0' hLs' hUs' r c hr hc
  exact ⟨h1.1.trans h2.1.symm, h1.2.trans h2.2.symm⟩

theorem C03_mixed_eq_build_mozart (jac : Pattern) (cscL cscU : Bool)
    (hdiag : ∀ i, i < jac.n → jac.zero? i i = false) (a l0 u0 l0' u0' : Array K)
    (hLs : l0.size = (LinAlg.buildMixed .mozart jac cscL cscU).Lp.nnz)
    (hUs : u0.size = (LinAlg.buildMixed .mozart jac cscL cscU).Up.nnz)
    (hLs' : l0'.size = (LinAlg.build .mozart jac).Lp.nnz)
    (hUs' : u0'.size = (LinAlg.build .mozart jac).Up.nnz) :
    ∀ r c, r < jac.n → c < jac.n →
      view (LinAlg.buildMixed .mozart jac cscL cscU).Lp
          (mozartCell (LinAlg.buildMixed .mozart jac cscL cscU).mInit
            (LinAlg.buildMixed .mozart jac cscL cscU).mRows a (l0, u0)).1 r c
        = view (LinAlg.build .mozart jac).Lp
          (mozartCell (LinAlg.build .mozart jac).mInit (LinAlg.build .mozart jac).mRows a
            (l0', u0')).1 r c ∧
      view (LinAlg.buildMixed .mozart jac cscL cscU).Up
          (mozartCell (LinAlg.buildMixed .mozart jac cscL cscU).mInit
            (LinAlg.buildMixed .mozart jac cscL cscU).mRows a (l0, u0)).2 r c
        = view (LinAlg.build .mozart jac).Up
          (mozartCell (LinAlg.build .mozart jac).mInit (LinAlg.build .mozart jac).mRows a
            (l0', u0')).2 r c := by
  intro r c hr hc
  have h1 := buildMixed_mozart_view jac cscL cscU hdiag a l0 u0 hLs hUs r c hr hc
  have h2 := C03_build_mozart jac hdiag a l0' u0' hLs' hUs' r c hr hc
  exact ⟨h1.1.trans h2.1.symm, h1.2.trans h2.2.symm⟩

/-- the structure behind it: the patterns built by `buildMixed` are well-formed for every pair of
    orders ((H1)+(H2) of C03), `Lp` is lower triangular with a full diagonal, `Up` upper triangular
    with a full diagonal, and which elements are present and how many slots each array has does not
    depend on the orders (so the size hypotheses above are the same for all four combinations). -/
theorem C03_mixed_patterns (kind : LUKind) (jac : Pattern) (cscL cscU : Bool)
    (hdiag : kind = .mozart → ∀ i, i < jac.n → jac.zero? i i = false) :
    let la := LinAlg.buildMixed kind jac cscL cscU
    MozSetup jac.n jac la.Lp la.Up ∧
    (∀ i, i < jac.n → la.Lp.zero? i i = false ∧ la.Up.zero? i i = false) ∧
    (∀ cscL' cscU' r c,
      la.Lp.zero? r c = (LinAlg.buildMixed kind jac cscL' cscU').Lp.zero? r c ∧
      la.Up.zero? r c = (LinAlg.buildMixed kind jac cscL' cscU').Up.zero? r c) ∧
    (∀ cscL' cscU',
      la.Lp.nnz = (LinAlg.buildMixed kind jac cscL' cscU').Lp.nnz ∧
      la.Up.nnz = (LinAlg.buildMixed kind jac cscL' cscU').Up.nnz) := by
  intro la
  have hs := MozSetup_buildMixed_kind kind jac cscL cscU hdiag
  refine ⟨hs, fun i hi => ⟨hs.diagL i hi, ?_⟩,
    fun cscL' cscU' r c => buildMixed_zero?_indep kind jac cscL cscU cscL' cscU' r c,
    fun cscL' cscU' => buildMixed_nnz_indep kind jac cscL cscU cscL' cscU'⟩
  exact (pres_true _ _ _).mp (hs.closed.diagU i hi)

/-- for Doolittle also minimality (the full `LUSetup`) -/
theorem C03_mixed_setup_doolittle (jac : Pattern) (cscL cscU : Bool) :
    LUSetup jac.n jac (LinAlg.buildMixed .doolittle jac cscL cscU).Lp
      (LinAlg.buildMixed .doolittle jac cscL cscU).Up :=
  LUSetup_buildMixed jac cscL cscU

/-! ### a concrete instance: 3×3, `A` (CSR) lacks (1,2),(2,1); fill-in at `L(2,1)` and `U(1,2)`;
`L` stored in CSC, `U` in CSR (and the other way round) -/

def c03bA : Pattern := Pattern.mk' 3 false 0 [(0,0),(0,1),(0,2),(1,0),(1,1),(2,0),(2,2)]

/-- the hypothesis on the Jacobian pattern holds -/
example : ∀ i, i < c03bA.n → c03bA.zero? i i = false := by decide +kernel

/-- the two storage orders really differ: element lists of `Lp` in CSC vs CSR and of `Up` in CSR
    vs CSC (these are storage keys, major index first: (col,row) for CSC, (row,col) for CSR) -/
example : (LinAlg.buildMixed .doolittle c03bA true false).Lp.elems
      = [(0,0),(0,1),(0,2),(1,1),(1,2),(2,2)] := by decide +kernel
example : (LinAlg.buildMixed .doolittle c03bA false true).Lp.elems
      = [(0,0),(1,0),(1,1),(2,0),(2,1),(2,2)] := by decide +kernel
example : (LinAlg.buildMixed .doolittle c03bA true false).Up.elems
      = [(0,0),(0,1),(0,2),(1,1),(1,2),(2,2)] := by decide +kernel
example : (LinAlg.buildMixed .doolittle c03bA false true).Up.elems
      = [(0,0),(1,0),(1,1),(2,0),(2,1),(2,2)] := by decide +kernel

/-- ranks differ accordingly: `L(2,0)` is slot 2 in CSC, slot 3 in CSR; the fill-in `U(1,2)` is
    slot 4 in both, `U(0,2)` is slot 2 in CSR and slot 3 in CSC -/
example : (LinAlg.buildMixed .doolittle c03bA true false).Lp.rk 2 0 = 2 ∧
    (LinAlg.buildMixed .doolittle c03bA false true).Lp.rk 2 0 = 3 ∧
    (LinAlg.buildMixed .doolittle c03bA true false).Up.rk 0 2 = 2 ∧
    (LinAlg.buildMixed .doolittle c03bA false true).Up.rk 0 2 = 3 := by decide +kernel

/-- numeric instance over `ℚ`: A = [[2,1,1],[4,3,0],[6,0,7]], garbage in the `L`/`U` storage;
    L = [[1,0,0],[2,1,0],[3,-3,1]], U = [[2,1,1],[0,1,-2],[0,0,-2]].  `L` in CSC / `U` in CSR: -/
example :
    let la := LinAlg.buildMixed .doolittle c03bA true false
    let a : Array ℚ := #[2, 1, 1, 4, 3, 6, 7]
    doolittleCell la.dRows a (#[9,9,9,9,9,9], #[8,8,8,8,8,8])
      = (#[1, 2, 3, 1, -3, 1], #[2, 1, 1, 1, -2, -2]) := by decide +kernel

/-- `L` in CSR / `U` in CSC -/
example :
    let la := LinAlg.buildMixed .doolittle c03bA false true
    let a : Array ℚ := #[2, 1, 1, 4, 3, 6, 7]
    doolittleCell la.dRows a (#[9,9,9,9,9,9], #[8,8,8,8,8,8])
      = (#[1, 2, 1, 3, -3, 1], #[2, 1, 1, 1, -2, -2]) := by decide +kernel

/-- Mozart, `L` in CSC / `U` in CSR, other garbage -/
example :
    let la := LinAlg.buildMixed .mozart c03bA true false
    let a : Array ℚ := #[2, 1, 1, 4, 3, 6, 7]
    mozartCell la.mInit la.mRows a (#[5,5,5,5,5,5], #[4,4,4,4,4,4])
      = (#[1, 2, 3, 1, -3, 1], #[2, 1, 1, 1, -2, -2]) := by decide +kernel

/-- all hypotheses of `C03_mixed_LU` hold on this instance (sizes, non-vanishing pivots) -/
example :
    let la := LinAlg.buildMixed .doolittle c03bA true false
    let a : Array ℚ := #[2, 1, 1, 4, 3, 6, 7]
    let LU := doolittleCell la.dRows a (#[9,9,9,9,9,9], #[8,8,8,8,8,8])
    (#[9,9,9,9,9,9] : Array ℚ).size = la.Lp.nnz ∧ (#[8,8,8,8,8,8] : Array ℚ).size = la.Up.nnz ∧
    ∀ i, i < c03bA.n → view la.Up LU.2 i i ≠ 0 := by decide +kernel

end Micm

#print axioms Micm.C03_mixed_view
#print axioms Micm.C03_mixed_LU
#print axioms Micm.C03_mixed_doolittle_LU
#print axioms Micm.C03_mixed_mozart_LU
#print axioms Micm.C03_mixed_indep_of_orders
#print axioms Micm.C03_mixed_eq_build_doolittle
#print axioms Micm.C03_mixed_eq_build_mozart
#print axioms Micm.C03_mixed_patterns
#print axioms Micm.C03_mixed_setup_doolittle
