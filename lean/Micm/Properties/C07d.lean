/-
C07 / C06 at the intended interpretation — the real numbers with the real power and square root.

The C06/C07 theorems about the Rosenbrock controller are stated over an arbitrary ordered field with an
UNINTERPRETED `pow`, and carry the hypothesis `∀ x, 1 ≤ x → 1 ≤ pow x (1/order)`.  Here the carrier is `ℝ`,
`pow = Real.rpow`, `sqrt = Real.sqrt`: the hypothesis is a theorem whenever `estimator_of_local_order > 0`, so
the controller statements hold for the genuine error norm and step-size formula, with no hypothesis left about `pow`.
-/
import Mathlib.Analysis.SpecialFunctions.Pow.Real
import Micm.Properties.C07

namespace Micm
set_option linter.unusedSectionVars false

/-- the model's operation record over `ℝ`: order comparisons, `|·|`, `Real.sqrt`, `Real.rpow`, no special values -/
noncomputable def realOps : Ops ℝ := orderOps Real.sqrt Real.rpow Nat.cast

theorem C07_realOps_ordered : OrderedOps realOps := orderOps_ordered _ _ _

/-- the `pow` hypothesis of `C07_reject_shrinks` / `C06_time_bounds` / `C06_ros_terminates` holds for the real
    power as soon as the order of the estimator is positive -/
theorem C07_real_pow_hypothesis (order : ℝ) (ho : 0 < order) :
    ∀ x : ℝ, 1 ≤ x → 1 ≤ realOps.pow x (1 / order) := by
  intro x hx
  show 1 ≤ Real.rpow x (1 / order)
  exact Real.one_le_rpow hx (le_of_lt (one_div_pos.mpr ho))

/-- **every rejection shrinks the step, over `ℝ` with the real power** (no hypothesis on `pow`) -/
theorem C07_reject_shrinks_real (p : RosParams ℝ) (hm : ℝ) (c : Ctl ℝ) (e : ℝ) (lp : LegalParams p)
    (hs1 : p.safety < 1) (hord : 0 < p.order)
    (h : (ctlDecide realOps p hm c e).1 = .reject) (hh : 0 < c.h) :
    0 < (ctlDecide realOps p hm c e).2.h ∧ (ctlDecide realOps p hm c e).2.h < c.h :=
  C07_reject_shrinks p hm c e C07_realOps_ordered lp hs1 (C07_real_pow_hypothesis p.order hord) h hh

/-- the clamp of the step-size ratio over `ℝ`: `min fmax (max fmin (safety / err^(1/order)))` with the real power -/
theorem C07_stepFac_real (p : RosParams ℝ) (e : ℝ) :
    stepFac realOps p e = min p.fmax (max p.fmin (p.safety / Real.rpow e (1 / p.order))) := by
  rw [C07_realOps_ordered.stepFac_eq]; rfl

/-- a tighter error gives a larger proposed factor: the real power is monotone on `[0, ∞)` for a positive exponent,
    so `err ≤ err'` (both positive) implies `stepFac err' ≤ stepFac err` -/
theorem C07_stepFac_antitone_real (p : RosParams ℝ) (lp : LegalParams p) (hord : 0 < p.order) (e e' : ℝ)
    (he : 0 < e) (hle : e ≤ e') : stepFac realOps p e' ≤ stepFac realOps p e := by
  rw [C07_stepFac_real, C07_stepFac_real]
  have hexp : 0 ≤ 1 / p.order := le_of_lt (one_div_pos.mpr hord)
  have h1 : Real.rpow e (1 / p.order) ≤ Real.rpow e' (1 / p.order) := Real.rpow_le_rpow (le_of_lt he) hle hexp
  have h0 : 0 < Real.rpow e (1 / p.order) := Real.rpow_pos_of_pos he _
  have h2 : p.safety / Real.rpow e' (1 / p.order) ≤ p.safety / Real.rpow e (1 / p.order) :=
    div_le_div_of_nonneg_left (le_of_lt lp.safety_pos) h0 h1
  exact min_le_min (le_refl _) (max_le_max (le_refl _) h2)

end Micm
