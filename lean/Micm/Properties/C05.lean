/-
C05 — every attempted step factors the genuine matrix `(1/(γ·H))·I − J(Y)` (Rosenbrock part).

`s.jacobian kc Y Z` is the model of `SubtractJacobianTerms` (it yields `−J(Y)` when started from a
zeroed buffer `Z = fillM B 0`); `s.alphaMinusJacobian M a` adds `a` to every diagonal element.
So `s.alphaMinusJacobian (s.jacobian kc Y (fillM B 0)) (1/(H·γ))` *is* `(1/(γH))·I − J(Y)`.
-/
import Micm.Lemmas.RosLoop

namespace Micm
set_option linter.unusedSectionVars false

section
variable {K : Type} [Field K]
variable (o : Ops K) (cs : Consts K) (s : SolverCfg K) (p : RosParams K) (kc : Mat K)
    (atol : Array K) (rtol : K) (T hm : K)

/-- exact shift semantics: two successive diagonal shifts add up.  Holds for *every* diagonal list
    (no `Nodup`/range assumption needed: out-of-range writes are dropped both times and a duplicated
    rank is shifted twice both times). -/
theorem C05_shift_add (J : Mat K) (a b : K) :
    s.alphaMinusJacobian (s.alphaMinusJacobian J a) b = s.alphaMinusJacobian J (a + b) :=
  alphaMinusJacobian_add s J a b

theorem C05_shift_zero (J : Mat K) : s.alphaMinusJacobian J 0 = J :=
  alphaMinusJacobian_zero s J

/-- entry-wise meaning for a duplicate-free diagonal list: in every cell the diagonal ranks (in
    range) get `+ a`, all other elements are unchanged, sizes are unchanged -/
theorem C05_shift_entry (hd : s.diag.Nodup) (J : Mat K) (a : K) (c : Nat) (hc : c < J.size) (j : Nat) :
    ((s.alphaMinusJacobian J a).getD c #[]).size = (J.getD c #[]).size ∧
    rd ((s.alphaMinusJacobian J a).getD c #[]) j =
      if j ∈ s.diag ∧ j < (J.getD c #[]).size then rd (J.getD c #[]) j + a else rd (J.getD c #[]) j := by
  have h1 : (s.alphaMinusJacobian J a).getD c #[] = shiftRow s.diag (J.getD c #[]) a := by
    simp [alphaMinusJacobian_eq, Array.getD, hc]
  rw [h1]
  exact ⟨shiftRow_size _ _ _, rd_shiftRow _ hd _ _ _⟩

/-- the non-in-place factorisations return the Jacobian buffer unchanged (so the shift accumulates) -/
theorem C05_factor_keeps_jacobian (h : s.la.kind.inPlace = false) (J Lo Up : Mat K) :
    (s.factor J Lo Up).1 = J :=
  factor_fst_of_not_inPlace s h J Lo Up

/-- the loop invariant of the retry loop is preserved by one iteration:
    while inside a step, `state.jacobian_` holds `−J(Y)` shifted by the total `last_alpha`
    (separate L/U variants), resp. the freshly regenerated `−J(Y)` (in-place variants) -/
theorem C05_invariant_step (r : RState K) (h : ShiftInv s kc r) :
    ShiftInv s kc (rosStep o cs s p kc atol rtol T hm r) :=
  rosStep_inv o cs s p kc atol rtol T hm (ShiftInv s kc) r (ShiftInv_prologue o cs s p kc T r)
    (fun r' h1 _ => ShiftInv_attempt o cs s p kc atol rtol hm r' h1) h

/-- **one iteration, precise form** (all four LU variants, any retry history encoded in `ShiftInv`):
    the matrix handed to `Factor` by the attempt of this iteration is `−J(r.Y)` — the Jacobian at the
    *current* solution — shifted by exactly `1/(H·γ)` for the `H` recorded with the attempt.
    When the iteration starts a new step the zeroed buffer is the current `r.sc.jac`. -/
theorem C05_matrix_step (r : RState K) (hr : r.status = .running) (hinv : ShiftInv s kc r)
    (att : Attempt K) (h : (rosStep o cs s p kc atol rtol T hm r).trace = att :: r.trace) :
    ∃ B, att.matrix = s.alphaMinusJacobian (s.jacobian kc r.Y (fillM B 0)) (1 / (att.h * p.gamma0)) ∧
         (r.inStep = false → B = r.sc.jac) :=
  C05_step o cs s p kc atol rtol T hm r hr hinv att h

/-- along `rosLoop` from any state satisfying the invariant, every recorded attempt (old and new)
    has a genuine matrix -/
theorem C05_matrix_loop (fuel : Nat) (r : RState K) (h : C05Inv s p kc r) :
    ∀ att ∈ (rosLoop o cs s p kc atol rtol T hm fuel r).trace,
      ∃ Y B, att.matrix = s.alphaMinusJacobian (s.jacobian kc Y (fillM B 0)) (1 / (att.h * p.gamma0)) :=
  (C05Inv_loop o cs s p kc atol rtol T hm fuel r h).2

/-- **C05_matrix**: in every result of `rosSolve`, for every LU variant and any number of preceding
    rejected attempts in the step, every attempt's matrix is `−J(Y)` shifted by `1/(H·γ)` for its own `H`
    (`Y` is the solution at the start of the attempt's step — see `C05_matrix_step` for the precise `Y`) -/
theorem C05_matrix (Y : Mat K) (sc : Scratch K) (fuel : Nat) :
    ∀ att ∈ (rosSolve o cs s p kc atol rtol T Y sc fuel).trace,
      ∃ Y' B, att.matrix = s.alphaMinusJacobian (s.jacobian kc Y' (fillM B 0)) (1 / (att.h * p.gamma0)) := by
  intro att hatt
  rw [rosSolve_eq] at hatt
  exact C05_matrix_loop o cs s p kc atol rtol T _ fuel _ (C05Inv_init s p kc _ Y sc) att (by simpa using hatt)

/-- the invariant holds at every iterate of `rosStep` from the initial state of `rosSolve`
    (so `C05_matrix_step` applies at each iteration of the loop, with the precise current `Y`) -/
theorem C05_invariant_iter (h0 : K) (Y : Mat K) (sc : Scratch K) (n : Nat) :
    ShiftInv s kc ((rosStep o cs s p kc atol rtol T hm)^[n] (rosInit h0 Y sc)) := by
  induction n with
  | zero => exact (C05Inv_init s p kc h0 Y sc).1
  | succ n ih => rw [Function.iterate_succ_apply']; exact C05_invariant_step o cs s p kc atol rtol T hm _ ih

end

/-! ### the stage equations (any carrier) -/

section Stages
variable {α : Type} [OfNat α 0] [OfNat α 1] [Add α] [Sub α] [Mul α] [Div α]
variable (o : Ops α) (cs : Consts α) (s : SolverCfg α) (p : RosParams α) (kc : Mat α)
    (atol : Array α) (rtol : α) (T hm : α)

/-- **C05_stage_rhs**: let an iteration record the attempt `att`; let `r'` be the state after the
    step prologue (same `Y`, `k`, `lower`, `upper` as `r`; `f0` is the initial forcing), `K` the stage
    vectors left in the scratch and `(jac, lo, up)` the factorisation of `att.matrix`.  Then for every
    stage `i < stages`
      `K[i] = linSolve jac lo up (F_i + Σ_{j<i} (c[i(i−1)/2 + j] / H) · K[j])`
    where `F_i = stageForcing … i`: the initial forcing for `i = 0`; for `i > 0` the forcing at
    `Y + Σ_{j<i} a[i(i−1)/2 + j] · K[j]` if `new_function_evaluation[i]`, else `F_{i−1}`.
    (Needs the scratch to have room for all stage vectors: `stages ≤ k.size`.) -/
theorem C05_stage_rhs (r : RState α) (att : Attempt α)
    (h : (rosStep o cs s p kc atol rtol T hm r).trace = att :: r.trace)
    (hk : p.stages ≤ r.sc.k.size) (i : Nat) (hi : i < p.stages) :
    (rosStep o cs s p kc atol rtol T hm r).sc.k.getD i #[] =
      s.linSolve (s.factor att.matrix r.sc.lower r.sc.upper).1
        (s.factor att.matrix r.sc.lower r.sc.upper).2.1 (s.factor att.matrix r.sc.lower r.sc.upper).2.2
        (stageRhsOf p att.h (rosStep o cs s p kc atol rtol T hm r).sc.k
          (stageForcing s p kc r.Y (r.sc.k.setIfInBounds 0 (rosPrologue o cs s p kc T r).sc.f0)
            (rosStep o cs s p kc atol rtol T hm r).sc.k i) i) := by
  obtain ⟨hs, rfl⟩ := rosStep_trace_cons o cs s p kc atol rtol T hm r att h
  obtain ⟨f1, f2, f3, _⟩ := rosPrologue_frame_sc o cs s p kc T r
  have fY := (rosPrologue_frame o cs s p kc T r).2.1
  rw [rosStep_attempt o cs s p kc atol rtol T hm r hs]
  have := rosAttempt_stage_equations o cs s p kc atol rtol hm (rosPrologue o cs s p kc T r)
    (by rw [f1]; exact hk) i hi
  simpa only [attFactor, attRecord, f1, f2, f3, fY] using this

/-- the definitions behind `F_i` and the right-hand side, spelled out -/
theorem C05_stageForcing_zero (Y : Mat α) (K0 K : Array (Mat α)) :
    stageForcing s p kc Y K0 K 0 = K0.getD 0 #[] := rfl

theorem C05_stageForcing_succ (Y : Mat α) (K0 K : Array (Mat α)) (i : Nat) :
    stageForcing s p kc Y K0 K (i + 1) =
      if p.newF.getD (i + 1) false
      then s.forcing kc
        ((List.range (i + 1)).foldl
          (fun yn j => axpyM (rd p.a ((i + 1) * (i + 1 - 1) / 2 + j)) (K.getD j #[]) yn) Y)
        (fillM (K0.getD (i + 1) #[]) 0)
      else stageForcing s p kc Y K0 K i := rfl

/-- entry `(c, v)` of the right-hand side: `F[c][v] + Σ_{j<i} (c[i(i−1)/2+j]/H) · K[j][c][v]`, added
    left to right as in the source -/
theorem C05_stage_rhs_entry (h : α) (K : Array (Mat α)) (F : Mat α) (i c v : Nat)
    (hc : c < F.size) (hv : v < (F.getD c #[]).size) :
    rd ((stageRhsOf p h K F i).getD c #[]) v =
      (List.range i).foldl
        (fun acc j => acc + rd p.c (i * (i - 1) / 2 + j) / h * rd ((K.getD j #[]).getD c #[]) v)
        (rd (F.getD c #[]) v) :=
  rd_axpy_fold (fun j => rd p.c (i * (i - 1) / 2 + j) / h) (fun j => K.getD j #[]) _ F c v hc hv

/-- `Ynew = Y + Σ m_i K_i`, `Yerr = Σ e_i K_i`: what an iteration that records an attempt leaves.
    On anything but a rejection `Y` becomes `Ynew`. -/
theorem C05_new_solution (r : RState α) (att : Attempt α)
    (h : (rosStep o cs s p kc atol rtol T hm r).trace = att :: r.trace) :
    (rosStep o cs s p kc atol rtol T hm r).sc.yerr =
      (List.range p.stages).foldl
        (fun ye i => axpyM (rd p.e i) ((rosStep o cs s p kc atol rtol T hm r).sc.k.getD i #[]) ye)
        (fillM r.sc.yerr 0) ∧
    (att.accepted = true → (rosStep o cs s p kc atol rtol T hm r).Y =
      (List.range p.stages).foldl
        (fun yn i => axpyM (rd p.m i) ((rosStep o cs s p kc atol rtol T hm r).sc.k.getD i #[]) yn) r.Y) := by
  obtain ⟨hs, rfl⟩ := rosStep_trace_cons o cs s p kc atol rtol T hm r att h
  obtain ⟨_, _, _, _, f5⟩ := rosPrologue_frame_sc o cs s p kc T r
  have fY := (rosPrologue_frame o cs s p kc T r).2.1
  rw [rosStep_attempt o cs s p kc atol rtol T hm r hs, rosAttempt_yerr, rosAttempt_k, rosAttempt_Y]
  refine ⟨by rw [attYerr, f5], ?_⟩
  intro ha
  have hd : (attDecide o cs s p kc atol rtol hm (rosPrologue o cs s p kc T r)).1 = .accept := by
    simpa [attRecord, decision_beq_accept] using ha
  rw [hd]; simp only [reduceCtorEq, if_false]
  rw [attYnew, fY]

/-- while inside a step, `initial_forcing` (stage 0's `F_0`) is the forcing at the current `Y` -/
theorem C05_initial_forcing_step (r : RState α) (h : F0Inv s kc r) :
    F0Inv s kc (rosStep o cs s p kc atol rtol T hm r) :=
  F0Inv_step o cs s p kc atol rtol T hm r h

end Stages

/-! ### concrete instance: a four-rejection history (`H = 1000, 200, 40, 4, 2/5`, `γ = 1/2`, `−J = (1)`) -/

/-- separate-L/U variant: the matrices are `1 + 1/(H γ)` although the shifts passed to
    `AlphaMinusJacobian` are the re-based differences -/
example : (Ex.run .doolittle 1000 5).trace.map (fun a => (a.h, a.accepted, a.alpha, a.matrix)) =
    [(1000, false, 1/500, #[#[501/500]]), (200, false, 1/125, #[#[101/100]]),
     (40, false, 1/25, #[#[21/20]]), (4, false, 9/20, #[#[3/2]]), (2/5, true, 9/2, #[#[6]])] := by
  decide +kernel

/-- in-place variant: same matrices, the full `1/(H γ)` is applied to a regenerated Jacobian -/
example : (Ex.run .mozartInPlace 1000 5).trace.map (fun a => (a.h, a.accepted, a.alpha, a.matrix)) =
    [(1000, false, 1/500, #[#[501/500]]), (200, false, 1/100, #[#[101/100]]),
     (40, false, 1/20, #[#[21/20]]), (4, false, 1/2, #[#[3/2]]), (2/5, true, 5, #[#[6]])] := by
  decide +kernel

/-- the right-hand side of the theorem on this instance: `(1/(γH))·I − J(Y)` at `Y = (1)`, `H = 40` -/
example : (Ex.cfg .doolittle).alphaMinusJacobian
    ((Ex.cfg .doolittle).jacobian #[#[1]] #[#[1]] (fillM #[#[7]] 0)) (1 / (40 * Ex.params.gamma0)) = #[#[21/20]] := by
  decide +kernel

#print axioms C05_shift_add
#print axioms C05_shift_zero
#print axioms C05_shift_entry
#print axioms C05_factor_keeps_jacobian
#print axioms C05_invariant_step
#print axioms C05_matrix_step
#print axioms C05_matrix_loop
#print axioms C05_matrix
#print axioms C05_invariant_iter
#print axioms C05_stage_rhs
#print axioms C05_stage_rhs_entry
#print axioms C05_new_solution
#print axioms C05_initial_forcing_step

end Micm
