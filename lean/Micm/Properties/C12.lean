/-
C12 — configuration independence (exact-arithmetic reading).

"Solving the same problem with row-major or vector-grouped matrices (any group length L), CSR or CSC
sparse storage, Doolittle or Mozart LU, separate or in-place factors, reordered or unreordered state
yields the same concentrations up to floating-point rounding, and the same step history unless an
accept/reject decision was within rounding of its threshold."

Over a field `K` every logical result of an attempted Rosenbrock step is a function of the logical
data only; the configuration (`LUKind`, CSR/CSC, sparse group length, dense layout `L`) drops out.

Vocabulary (`Micm/Lemmas/ConfigIndep.lean`):
* `view p a r c`: logical matrix held by the rank-indexed array `a` under pattern `p` (C03/C04);
* `la.factorSolveCell a l0 u0 b`: `Factor` then `Solve` of the configured variant on one cell —
  `linSolve_factor_getD` shows it *is* cell `c` of the model's `SolverCfg.linSolve ∘ SolverCfg.factor`;
  `la.pivot a l0 u0 i`: the `i`-th diagonal element of the computed `U`;
  `la.SizesOK a l0 u0`: the storage sizes C04's theorems need (`L`/`U` storage for the separate
  variants, the ALU-pattern matrix for the in-place variants);
  `kind.needsDiag`: Mozart variants need the (always present) structural diagonal;
* `jacEntrySpec procs m k y i j`: the formal `∂f_i/∂y_j` of C02;
* `CfgBuilt s t n csc Ls kind`: `s` is what the builder (`mkCfg`) produces;
* `MatShape nCells n M`: a logical dense matrix of `nCells` rows with `n` entries;
* `relabel σ m`: the species name map with indices relabelled by `σ`.
-/
import Micm.Lemmas.ConfigIndep
import Micm.Lemmas.ConfigIndepLoop
import Micm.Properties.C03
import Mathlib.Algebra.Field.Rat

open Finset
namespace Micm
variable {K : Type} [Field K]

/-! ## 1. uniqueness of the solution of the linear system -/

/-- If `A = L·U` on the `n × n` block with `L` unit lower triangular, `U` upper triangular and no
    zero pivot, then `A` is injective on vectors of length `n`. -/
theorem C12_solution_unique (n : Nat) (A Lm Um : Nat → Nat → K) (h : DenseLU.IsLU n A Lm Um)
    (hp : ∀ i, i < n → Um i i ≠ 0) (x y : Nat → K)
    (hxy : ∀ i, i < n → ∑ j ∈ range n, A i j * x j = ∑ j ∈ range n, A i j * y j) :
    ∀ j, j < n → x j = y j :=
  lu_injective n A Lm Um h hp x y hxy

/-! ## 2. `Factor; Solve` does not depend on the linear-algebra configuration -/

/-- **C12 (linear algebra), one cell.**  Two configurations `(kind₁, csc₁, L₁)`, `(kind₂, csc₂, L₂)`
    of the same declared element set (well formed, with the full diagonal): arrays `a₁`, `a₂` that
    hold the same logical matrix (through the pattern of `state.jacobian_` of each configuration;
    fill-in slots of an ALU pattern therefore hold `0`), the same right-hand side, no zero pivot
    (in the first configuration — it then holds in the second, `C12_pivots_config_indep`):
    `Factor; Solve` return the same vector. -/
theorem C12_linear_algebra_config_indep (n : Nat) (set : List Pair) (hw : WF n set)
    (hdiag : ∀ i, i < n → (i, i) ∈ set)
    (kind₁ kind₂ : LUKind) (csc₁ csc₂ : Bool) (L₁ L₂ : Nat)
    (a₁ l₁ u₁ a₂ l₂ u₂ b : Array K)
    (hs₁ : (LinAlg.build kind₁ (Pattern.mk' n csc₁ L₁ set)).SizesOK a₁ l₁ u₁)
    (hs₂ : (LinAlg.build kind₂ (Pattern.mk' n csc₂ L₂ set)).SizesOK a₂ l₂ u₂)
    (hb : b.size = n)
    (hpiv : ∀ i, i < n → (LinAlg.build kind₁ (Pattern.mk' n csc₁ L₁ set)).pivot a₁ l₁ u₁ i ≠ 0)
    (hview : ∀ r c, r < n → c < n →
      view (LinAlg.build kind₁ (Pattern.mk' n csc₁ L₁ set)).A a₁ r c
        = view (LinAlg.build kind₂ (Pattern.mk' n csc₂ L₂ set)).A a₂ r c) :
    ∀ j, j < n →
      rd ((LinAlg.build kind₁ (Pattern.mk' n csc₁ L₁ set)).factorSolveCell a₁ l₁ u₁ b) j
        = rd ((LinAlg.build kind₂ (Pattern.mk' n csc₂ L₂ set)).factorSolveCell a₂ l₂ u₂ b) j :=
  factorSolve_config_indep kind₁ kind₂ _ _ n rfl rfl
    (fun _ i hi => (zero?_mk_iff hw csc₁ L₁ i i).mpr (hdiag i hi))
    (fun _ i hi => (zero?_mk_iff hw csc₂ L₂ i i).mpr (hdiag i hi))
    a₁ l₁ u₁ a₂ l₂ u₂ b hs₁ hs₂ hb hpiv hview

/-- the same for any two Jacobian patterns of block size `n` (exactly the hypotheses of the four
    `C04_build_*` theorems: sizes, `b.size = n`, structural diagonal for Mozart, no zero pivot) -/
theorem C12_linear_algebra_config_indep_patterns (kind₁ kind₂ : LUKind) (jac₁ jac₂ : Pattern)
    (n : Nat) (hn₁ : jac₁.n = n) (hn₂ : jac₂.n = n)
    (hd₁ : kind₁.needsDiag = true → ∀ i, i < n → jac₁.zero? i i = false)
    (hd₂ : kind₂.needsDiag = true → ∀ i, i < n → jac₂.zero? i i = false)
    (a₁ l₁ u₁ a₂ l₂ u₂ b : Array K)
    (hs₁ : (LinAlg.build kind₁ jac₁).SizesOK a₁ l₁ u₁) (hs₂ : (LinAlg.build kind₂ jac₂).SizesOK a₂ l₂ u₂)
    (hb : b.size = n)
    (hpiv : ∀ i, i < n → (LinAlg.build kind₁ jac₁).pivot a₁ l₁ u₁ i ≠ 0)
    (hview : ∀ r c, r < n → c < n →
      view (LinAlg.build kind₁ jac₁).A a₁ r c = view (LinAlg.build kind₂ jac₂).A a₂ r c) :
    (LinAlg.build kind₁ jac₁).factorSolveCell a₁ l₁ u₁ b
      = (LinAlg.build kind₂ jac₂).factorSolveCell a₂ l₂ u₂ b :=
  arr_ext_rd (by rw [factorSolveCell_size, factorSolveCell_size]) (fun j hj => by
    rw [factorSolveCell_size, hb] at hj
    exact factorSolve_config_indep kind₁ kind₂ jac₁ jac₂ n hn₁ hn₂ hd₁ hd₂ a₁ l₁ u₁ a₂ l₂ u₂ b
      hs₁ hs₂ hb hpiv hview j hj)

/-- the pivots themselves are configuration independent (they are those of dense Doolittle on the
    logical matrix), so "no zero pivot" is a property of the logical matrix -/
theorem C12_pivots_config_indep (kind₁ kind₂ : LUKind) (jac₁ jac₂ : Pattern) (n : Nat)
    (hn₁ : jac₁.n = n) (hn₂ : jac₂.n = n)
    (hd₁ : kind₁.needsDiag = true → ∀ i, i < n → jac₁.zero? i i = false)
    (hd₂ : kind₂.needsDiag = true → ∀ i, i < n → jac₂.zero? i i = false)
    (a₁ l₁ u₁ a₂ l₂ u₂ : Array K)
    (hs₁ : (LinAlg.build kind₁ jac₁).SizesOK a₁ l₁ u₁) (hs₂ : (LinAlg.build kind₂ jac₂).SizesOK a₂ l₂ u₂)
    (hview : ∀ r c, r < n → c < n →
      view (LinAlg.build kind₁ jac₁).A a₁ r c = view (LinAlg.build kind₂ jac₂).A a₂ r c) :
    ∀ i, i < n →
      (LinAlg.build kind₁ jac₁).pivot a₁ l₁ u₁ i = (LinAlg.build kind₂ jac₂).pivot a₂ l₂ u₂ i ∧
      (LinAlg.build kind₁ jac₁).pivot a₁ l₁ u₁ i
        = (DenseLU.lu (view (LinAlg.build kind₁ jac₁).A a₁) n).U i i :=
  fun i hi => ⟨pivot_config_indep kind₁ kind₂ jac₁ jac₂ n hn₁ hn₂ hd₁ hd₂ a₁ l₁ u₁ a₂ l₂ u₂ hs₁ hs₂
    hview i hi, build_pivot_eq kind₁ jac₁ n hn₁ hd₁ a₁ l₁ u₁ hs₁ i hi⟩

/-- `factorSolveCell` is the model: cell `c` of `linSolve` applied to the result of `factor` -/
theorem C12_factorSolveCell_is_model (s : SolverCfg K) (J Lo Up x : Mat K) (c : Nat)
    (hc : c < x.size) (hcJ : c < J.size) :
    (s.linSolve (s.factor J Lo Up).1 (s.factor J Lo Up).2.1 (s.factor J Lo Up).2.2 x).getD c #[]
      = s.la.factorSolveCell (J.getD c #[]) (Lo.getD c #[]) (Up.getD c #[]) (x.getD c #[]) :=
  linSolve_factor_getD s J Lo Up x c hc hcJ

/-- **C12 (linear algebra), all cells**: the model's `linSolve ∘ factor` of two configurations agree
    on every right-hand side of the logical shape when their matrices have the same logical view
    in every cell. -/
theorem C12_linSolve_config_indep (s₁ s₂ : SolverCfg K) (kind₁ kind₂ : LUKind) (jac₁ jac₂ : Pattern)
    (n : Nat) (hla₁ : s₁.la = LinAlg.build kind₁ jac₁) (hla₂ : s₂.la = LinAlg.build kind₂ jac₂)
    (hn₁ : jac₁.n = n) (hn₂ : jac₂.n = n)
    (hd₁ : kind₁.needsDiag = true → ∀ i, i < n → jac₁.zero? i i = false)
    (hd₂ : kind₂.needsDiag = true → ∀ i, i < n → jac₂.zero? i i = false)
    (M₁ Lo₁ Up₁ M₂ Lo₂ Up₂ : Mat K) (nCells : Nat) (hM₁ : M₁.size = nCells) (hM₂ : M₂.size = nCells)
    (hs₁ : ∀ c, c < nCells → s₁.la.SizesOK (M₁.getD c #[]) (Lo₁.getD c #[]) (Up₁.getD c #[]))
    (hs₂ : ∀ c, c < nCells → s₂.la.SizesOK (M₂.getD c #[]) (Lo₂.getD c #[]) (Up₂.getD c #[]))
    (hpiv : ∀ c, c < nCells → ∀ i, i < n →
      s₁.la.pivot (M₁.getD c #[]) (Lo₁.getD c #[]) (Up₁.getD c #[]) i ≠ 0)
    (hview : ∀ c, c < nCells → ∀ r c', r < n → c' < n →
      view s₁.la.A (M₁.getD c #[]) r c' = view s₂.la.A (M₂.getD c #[]) r c')
    (x : Mat K) (hx : MatShape nCells n x) :
    s₁.linSolve (s₁.factor M₁ Lo₁ Up₁).1 (s₁.factor M₁ Lo₁ Up₁).2.1 (s₁.factor M₁ Lo₁ Up₁).2.2 x
      = s₂.linSolve (s₂.factor M₂ Lo₂ Up₂).1 (s₂.factor M₂ Lo₂ Up₂).2.1 (s₂.factor M₂ Lo₂ Up₂).2.2 x :=
  linSolve_config_indep s₁ s₂ kind₁ kind₂ jac₁ jac₂ n hla₁ hla₂ hn₁ hn₂ hd₁ hd₂ M₁ Lo₁ Up₁ M₂ Lo₂ Up₂
    nCells hM₁ hM₂ hs₁ hs₂ hpiv hview x hx

/-! ## 3. forcing and Jacobian -/

/-- the forcing of a `SolverCfg` depends on the configuration only through the process-set tables
    (which are built before, and independently of, any storage choice); on flat storage the
    per-cell result is layout independent by `C13_cell_independence` -/
theorem C12_forcing_config_indep (s₁ s₂ : SolverCfg K) (ht : s₁.tables = s₂.tables) (k y f : Mat K) :
    s₁.forcing k y f = s₂.forcing k y f :=
  forcing_congr_tables s₁ s₂ ht k y f

/-- **C12 (Jacobian).**  For a successfully built process set, the Jacobian assembled by
    `SubtractJacobianTerms` into the (zeroed) pattern of `state.jacobian_` of *any* configuration —
    declared pattern or ALU pattern (in-place variants), CSR or CSC, any group length — has the
    logical view `−∂f_r/∂y_c` at every position of the block; hence two configurations hold the
    same logical matrix. -/
theorem C12_jacobian_config_indep (procs : List (Process K)) (m : NameMap) (t : PSTables K)
    (hb : ProcessSet.build procs m = .ok t)
    (hk : (m.map (·.1)).Nodup) (hv : (m.map (·.2)).Nodup)
    (hparam : ∀ p ∈ procs, ∀ r ∈ p.reactants, r.param = true → nmLookup m r.name = none)
    (n : Nat) (hn : ∀ e ∈ m, e.2 < n)
    (kind₁ kind₂ : LUKind) (csc₁ csc₂ : Bool) (L₁ L₂ : Nat) :
    let set := buildJacobianSet n t.nonZeroJacobianElements
    let A₁ := (LinAlg.build kind₁ (Pattern.mk' n csc₁ L₁ set)).A
    let A₂ := (LinAlg.build kind₂ (Pattern.mk' n csc₂ L₂ set)).A
    ∃ flat₁ flat₂, t.jacobianFlatIds A₁ = .ok flat₁ ∧ t.jacobianFlatIds A₂ = .ok flat₂ ∧
      ∀ (k y : Array K) (r c : Nat),
        view A₁ (t.subtractJacobianCell flat₁ k y (Array.replicate A₁.nnz 0)) r c
          = - jacEntrySpec procs m k y r c ∧
        view A₁ (t.subtractJacobianCell flat₁ k y (Array.replicate A₁.nnz 0)) r c
          = view A₂ (t.subtractJacobianCell flat₂ k y (Array.replicate A₂.nnz 0)) r c := by
  intro set A₁ A₂
  obtain ⟨flat₁, h1, v1⟩ := jacobian_view_build procs m t hb hk hv hparam n hn kind₁ csc₁ L₁
  obtain ⟨flat₂, h2, v2⟩ := jacobian_view_build procs m t hb hk hv hparam n hn kind₂ csc₂ L₂
  exact ⟨flat₁, flat₂, h1, h2, fun k y r c => ⟨v1 k y r c, (v1 k y r c).trans (v2 k y r c).symm⟩⟩

/-- the same on an arbitrary well-formed superset of the declared elements (CSR or CSC, any `L`) -/
theorem C12_jacobian_any_pattern (procs : List (Process K)) (m : NameMap) (t : PSTables K)
    (hb : ProcessSet.build procs m = .ok t)
    (hk : (m.map (·.1)).Nodup) (hv : (m.map (·.2)).Nodup)
    (hparam : ∀ p ∈ procs, ∀ r ∈ p.reactants, r.param = true → nmLookup m r.name = none)
    (n : Nat) (csc : Bool) (L : Nat) (set' : List Pair) (hw : WF n set')
    (hsup : ∀ x ∈ t.nonZeroJacobianElements, x ∈ set') :
    ∃ flat, t.jacobianFlatIds (Pattern.mk' n csc L set') = .ok flat ∧
      ∀ (k y : Array K) (r c : Nat),
        view (Pattern.mk' n csc L set')
          (t.subtractJacobianCell flat k y (Array.replicate (Pattern.mk' n csc L set').nnz 0)) r c
          = - jacEntrySpec procs m k y r c :=
  jacobian_view procs m t hb hk hv hparam n csc L set' hw hsup

/-- **C12 (reordering), forcing.**  Relabel the species by an injective `σ` (the name map is composed
    with `σ`; in the builder: Markowitz reordering or not).  The tables are rebuilt, the state and
    forcing vectors are permuted accordingly; entry `σ i` of the new forcing equals entry `i` of the
    old one. -/
theorem C12_forcing_permutation (σ : Nat → Nat) (hσ : Function.Injective σ) (m : NameMap)
    (procs : List (Process K)) (t t' : PSTables K)
    (h : buildForcing m procs = .ok t ∨ ProcessSet.build procs m = .ok t)
    (h' : buildForcing (relabel σ m) procs = .ok t' ∨ ProcessSet.build procs (relabel σ m) = .ok t')
    (k y y' f f' : Array K) (hy : ∀ j, rd y' (σ j) = rd y j)
    (i : Nat) (hi : i < f.size) (hi' : σ i < f'.size) (hf : rd f' (σ i) = rd f i) :
    rd (t'.addForcingCell k y' f') (σ i) = rd (t.addForcingCell k y f) i :=
  forcing_relabel σ hσ m procs t t' h h' k y y' f f' hy i hi hi' hf

/-- the relabelled problem builds iff the original does -/
theorem C12_permutation_builds (σ : Nat → Nat) (m : NameMap) (procs : List (Process K)) :
    (∃ t, ProcessSet.build procs (relabel σ m) = .ok t) ↔ ∃ t, ProcessSet.build procs m = .ok t :=
  relabel_build_ok_iff σ m procs

/-- **C12 (reordering), Jacobian.**  With the hypotheses of C02 for both name maps, on any two
    patterns (each a well-formed superset of its declared elements, any storage order / group
    length): element `(σ r, σ c)` of the relabelled Jacobian equals element `(r, c)` of the
    original one. -/
theorem C12_jacobian_permutation (σ : Nat → Nat) (hσ : Function.Injective σ)
    (procs : List (Process K)) (m : NameMap) (t t' : PSTables K)
    (hb : ProcessSet.build procs m = .ok t) (hb' : ProcessSet.build procs (relabel σ m) = .ok t')
    (hk : (m.map (·.1)).Nodup) (hv : (m.map (·.2)).Nodup)
    (hk' : ((relabel σ m).map (·.1)).Nodup) (hv' : ((relabel σ m).map (·.2)).Nodup)
    (hparam : ∀ p ∈ procs, ∀ r ∈ p.reactants, r.param = true → nmLookup m r.name = none)
    (n : Nat) (csc csc' : Bool) (L L' : Nat) (set set' : List Pair) (hw : WF n set) (hw' : WF n set')
    (hsup : ∀ x ∈ t.nonZeroJacobianElements, x ∈ set)
    (hsup' : ∀ x ∈ t'.nonZeroJacobianElements, x ∈ set') :
    ∃ flat flat', t.jacobianFlatIds (Pattern.mk' n csc L set) = .ok flat ∧
      t'.jacobianFlatIds (Pattern.mk' n csc' L' set') = .ok flat' ∧
      ∀ (k y y' : Array K), (∀ j, rd y' (σ j) = rd y j) → ∀ r c : Nat,
        view (Pattern.mk' n csc' L' set')
          (t'.subtractJacobianCell flat' k y' (Array.replicate (Pattern.mk' n csc' L' set').nnz 0))
          (σ r) (σ c)
        = view (Pattern.mk' n csc L set)
          (t.subtractJacobianCell flat k y (Array.replicate (Pattern.mk' n csc L set).nnz 0)) r c := by
  have hparam' : ∀ p ∈ procs, ∀ r ∈ p.reactants, r.param = true →
      nmLookup (relabel σ m) r.name = none := fun p hp r hr hpar => by
    rw [nmLookup_relabel, hparam p hp r hr hpar]; rfl
  obtain ⟨flat, h1, v1⟩ := jacobian_view procs m t hb hk hv hparam n csc L set hw hsup
  obtain ⟨flat', h2, v2⟩ :=
    jacobian_view procs (relabel σ m) t' hb' hk' hv' hparam' n csc' L' set' hw' hsup'
  refine ⟨flat, flat', h1, h2, fun k y y' hy r c => ?_⟩
  rw [v1, v2, jacEntrySpec_relabel σ hσ m procs k y y' hy]

/-- **C12 (reordering), linear algebra.**  If the second configuration stores the symmetrically
    permuted matrix (`A₂[σ r, σ c] = A₁[r, c]`, `σ` a permutation of `0 … n−1`) and right-hand side,
    and no pivot vanishes in either ordering (the pivots of a reordered matrix are different
    numbers, so this is two hypotheses), `Factor; Solve` returns the permuted solution — for any
    two LU variants and patterns. -/
theorem C12_linear_algebra_permutation (σ : Nat → Nat) (n : Nat)
    (hinj : ∀ i, i < n → ∀ j, j < n → σ i = σ j → i = j) (hr : ∀ i, i < n → σ i < n)
    (kind₁ kind₂ : LUKind) (jac₁ jac₂ : Pattern) (hn₁ : jac₁.n = n) (hn₂ : jac₂.n = n)
    (hd₁ : kind₁.needsDiag = true → ∀ i, i < n → jac₁.zero? i i = false)
    (hd₂ : kind₂.needsDiag = true → ∀ i, i < n → jac₂.zero? i i = false)
    (a₁ l₁ u₁ b₁ a₂ l₂ u₂ b₂ : Array K)
    (hs₁ : (LinAlg.build kind₁ jac₁).SizesOK a₁ l₁ u₁) (hs₂ : (LinAlg.build kind₂ jac₂).SizesOK a₂ l₂ u₂)
    (hb₁ : b₁.size = n) (hb₂ : b₂.size = n)
    (hpiv₁ : ∀ i, i < n → (LinAlg.build kind₁ jac₁).pivot a₁ l₁ u₁ i ≠ 0)
    (hpiv₂ : ∀ i, i < n → (LinAlg.build kind₂ jac₂).pivot a₂ l₂ u₂ i ≠ 0)
    (hview : ∀ r c, r < n → c < n →
      view (LinAlg.build kind₂ jac₂).A a₂ (σ r) (σ c) = view (LinAlg.build kind₁ jac₁).A a₁ r c)
    (hb : ∀ i, i < n → rd b₂ (σ i) = rd b₁ i) :
    ∀ j, j < n → rd ((LinAlg.build kind₂ jac₂).factorSolveCell a₂ l₂ u₂ b₂) (σ j)
      = rd ((LinAlg.build kind₁ jac₁).factorSolveCell a₁ l₁ u₁ b₁) j :=
  factorSolve_relabel σ n hinj hr kind₁ kind₂ jac₁ jac₂ hn₁ hn₂ hd₁ hd₂ a₁ l₁ u₁ b₁ a₂ l₂ u₂ b₂
    hs₁ hs₂ hb₁ hb₂ hpiv₁ hpiv₂ hview hb

/-! ## 4. the error norm does not depend on the dense layout -/

/-- the visiting order of `NormalizedError` for `VectorMatrix<L>` (full groups of `L` cells, then the
    partial group) is a permutation of the row-major order, for every `L`, cell count and width -/
theorem C12_normOrder_perm (L nCells nVars : Nat) :
    (normOrder L nCells nVars).Perm (normOrder 0 nCells nVars) :=
  normOrder_perm L nCells nVars

/-- **C12 (norm).**  In exact arithmetic `NormalizedError` has the same value for every two dense
    layouts `L`, `L'` (whatever `sqrt`, `abs`, comparison the `Ops` record supplies): the same
    multiset of terms is summed. -/
theorem C12_norm_layout_indep (o : Ops K) (cs : Consts K) (L L' nVars : Nat) (atol : Array K)
    (rtol : K) (y ynew err : Mat K) :
    normalizedError o cs L nVars atol rtol y ynew err
      = normalizedError o cs L' nVars atol rtol y ynew err := by
  rw [normalizedError_layout_indep o cs L, normalizedError_layout_indep o cs L']

/-- the sum inside the norm, as the sum of the terms over all (cell, variable) pairs -/
theorem C12_norm_sum (o : Ops K) (L nCells nVars : Nat) (atol : Array K) (rtol : K)
    (y ynew err : Mat K) :
    (normOrder L nCells nVars).foldl (fun acc cv => acc + errTerm o atol rtol y ynew err cv.1 cv.2) 0
      = ((normOrder 0 nCells nVars).map fun cv => errTerm o atol rtol y ynew err cv.1 cv.2).sum := by
  rw [foldl_add_perm (fun cv : Nat × Nat => errTerm o atol rtol y ynew err cv.1 cv.2)
    (normOrder_perm L nCells nVars) 0, foldl_add_eq_sum, zero_add]

/-! ## 5. one attempt -/

/-- **C12 (matrix of an attempt).**  For two built configurations of the same mechanism, cell `c`
    of `α·I − J(Y)` (what `C05_matrix_step` shows every attempt factors, with `α = 1/(γH)`) has the
    same logical view, namely `−∂f_r/∂y_c' + α·[r = c']`. -/
theorem C12_matrix_config_indep (procs : List (Process K)) (m : NameMap) (t : PSTables K)
    (hb : ProcessSet.build procs m = .ok t)
    (hk : (m.map (·.1)).Nodup) (hv : (m.map (·.2)).Nodup)
    (hparam : ∀ p ∈ procs, ∀ r ∈ p.reactants, r.param = true → nmLookup m r.name = none)
    (n : Nat) (hn : ∀ e ∈ m, e.2 < n)
    (s₁ s₂ : SolverCfg K) (csc₁ csc₂ : Bool) (Ls₁ Ls₂ : Nat) (kind₁ kind₂ : LUKind)
    (hs₁ : CfgBuilt s₁ t n csc₁ Ls₁ kind₁) (hs₂ : CfgBuilt s₂ t n csc₂ Ls₂ kind₂)
    (kc Y B₁ B₂ : Mat K) (a : K) (c : Nat) (hc₁ : c < B₁.size) (hc₂ : c < B₂.size)
    (hB₁ : (B₁.getD c #[]).size = s₁.la.A.nnz) (hB₂ : (B₂.getD c #[]).size = s₂.la.A.nnz)
    (r c' : Nat) (hr : r < n) :
    view s₁.la.A ((s₁.alphaMinusJacobian (s₁.jacobian kc Y (fillM B₁ 0)) a).getD c #[]) r c'
      = view s₂.la.A ((s₂.alphaMinusJacobian (s₂.jacobian kc Y (fillM B₂ 0)) a).getD c #[]) r c' ∧
    view s₁.la.A ((s₁.alphaMinusJacobian (s₁.jacobian kc Y (fillM B₁ 0)) a).getD c #[]) r c'
      = - jacEntrySpec procs m (kc.getD c #[]) (Y.getD c #[]) r c' + if r = c' then a else 0 := by
  have v1 := (built_matrix_view procs m t hb hk hv hparam n hn s₁ csc₁ Ls₁ kind₁ hs₁ kc Y B₁ a c hc₁
    hB₁ r c' hr).2
  have v2 := (built_matrix_view procs m t hb hk hv hparam n hn s₂ csc₂ Ls₂ kind₂ hs₂ kc Y B₂ a c hc₂
    hB₂ r c' hr).2
  exact ⟨v1.trans v2.symm, v1⟩

/-- **C12 (one attempt).**  `attStages`, `attYnew`, `attYerr`, `attError`, `attDecide`, `attMatrix`
    are the projections of one attempt of `rosStep` (`rosStep_eq`, `rosAttemptRaw_eq` in
    `Micm/Lemmas/RosLoop.lean`: `rosStep` is the prologue followed by `rosAttempt`, which is built
    from them).  Two configurations with the same tables and species count, any LU variants /
    patterns / dense layouts, started from states that agree on the logical data and whose attempt
    matrices have the same logical view (`C12_matrix_config_indep`), no vanishing pivot: all stage
    vectors `K_i`, `Ynew`, `Yerr`, the error norm and the decision (with the next step size)
    coincide. -/
theorem C12_attempt_config_indep (o : Ops K) (cs : Consts K) (p : RosParams K) (kc : Mat K)
    (atol : Array K) (rtol hm : K)
    (s₁ s₂ : SolverCfg K) (kind₁ kind₂ : LUKind) (jac₁ jac₂ : Pattern)
    (n : Nat) (hla₁ : s₁.la = LinAlg.build kind₁ jac₁) (hla₂ : s₂.la = LinAlg.build kind₂ jac₂)
    (hn₁ : jac₁.n = n) (hn₂ : jac₂.n = n)
    (hd₁ : kind₁.needsDiag = true → ∀ i, i < n → jac₁.zero? i i = false)
    (hd₂ : kind₂.needsDiag = true → ∀ i, i < n → jac₂.zero? i i = false)
    (ht : s₁.tables = s₂.tables) (hns : s₁.nSpecies = s₂.nSpecies)
    (r₁ r₂ : RState K) (hY : r₁.Y = r₂.Y) (hctl : r₁.ctl = r₂.ctl) (hk : r₁.sc.k = r₂.sc.k)
    (hf0 : r₁.sc.f0 = r₂.sc.f0) (hyerr : r₁.sc.yerr = r₂.sc.yerr)
    (nCells : Nat) (hKs : KShape nCells n r₁.sc.k) (hf0s : MatShape nCells n r₁.sc.f0)
    (hst : p.stages ≤ r₁.sc.k.size)
    (hM₁ : (attMatrix s₁ p r₁).size = nCells) (hM₂ : (attMatrix s₂ p r₂).size = nCells)
    (hs₁ : ∀ c, c < nCells → s₁.la.SizesOK ((attMatrix s₁ p r₁).getD c #[])
      (r₁.sc.lower.getD c #[]) (r₁.sc.upper.getD c #[]))
    (hs₂ : ∀ c, c < nCells → s₂.la.SizesOK ((attMatrix s₂ p r₂).getD c #[])
      (r₂.sc.lower.getD c #[]) (r₂.sc.upper.getD c #[]))
    (hpiv : ∀ c, c < nCells → ∀ i, i < n → s₁.la.pivot ((attMatrix s₁ p r₁).getD c #[])
      (r₁.sc.lower.getD c #[]) (r₁.sc.upper.getD c #[]) i ≠ 0)
    (hview : ∀ c, c < nCells → ∀ r c', r < n → c' < n →
      view s₁.la.A ((attMatrix s₁ p r₁).getD c #[]) r c'
        = view s₂.la.A ((attMatrix s₂ p r₂).getD c #[]) r c') :
    (attStages s₁ p kc r₁).1 = (attStages s₂ p kc r₂).1 ∧
    attYnew s₁ p kc r₁ = attYnew s₂ p kc r₂ ∧
    attYerr s₁ p kc r₁ = attYerr s₂ p kc r₂ ∧
    attError o cs s₁ p kc atol rtol r₁ = attError o cs s₂ p kc atol rtol r₂ ∧
    attDecide o cs s₁ p kc atol rtol hm r₁ = attDecide o cs s₂ p kc atol rtol hm r₂ :=
  attempt_config_indep o cs p kc atol rtol hm s₁ s₂ kind₁ kind₂ jac₁ jac₂ n hla₁ hla₂ hn₁ hn₂ hd₁ hd₂
    ht hns r₁ r₂ hY hctl hk hf0 hyerr nCells hKs hf0s hst hM₁ hM₂ hs₁ hs₂ hpiv hview

/-- the stage loop itself: configuration enters only through the tables and `linSolve` -/
theorem C12_stages_config_indep (s₁ s₂ : SolverCfg K) (ht : s₁.tables = s₂.tables) (p : RosParams K)
    (kc Y J₁ Lo₁ Up₁ J₂ Lo₂ Up₂ : Mat K) (h : K) (nCells n : Nat)
    (hsolve : ∀ x, MatShape nCells n x → s₁.linSolve J₁ Lo₁ Up₁ x = s₂.linSolve J₂ Lo₂ Up₂ x)
    (Ks : Array (Mat K)) (ynew : Mat K) (st : Stats)
    (hK : KShape nCells n Ks) (hsz : p.stages ≤ Ks.size) :
    stagesGo s₁ p kc Y J₁ Lo₁ Up₁ h p.stages 0 Ks ynew st
      = stagesGo s₂ p kc Y J₂ Lo₂ Up₂ h p.stages 0 Ks ynew st :=
  stagesGo_config_indep s₁ s₂ ht p kc Y J₁ Lo₁ Up₁ J₂ Lo₂ Up₂ h nCells n hsolve p.stages 0 Ks ynew st
    hK (by omega)

/-! ## 6. the whole solve: same step history

`Mechanism procs m t n` bundles the hypotheses of C02 on the mechanism; `CfgBuilt s t n csc Ls kind`
says `s` is the builder's output for one configuration; `StoreInv p kc s nCells n r` is the
per-configuration storage invariant (shapes + the C05 invariant), `LogicalEq r₁ r₂` says the two
states agree on `Y`, the step-size control, status, the stage vectors, the forcing/error buffers,
the counters (all but `jacobian_updates`) and the history `(H, error, accepted)` of the attempts;
`PivotsOK … r`: no pivot vanishes in the attempt of the iteration that starts at `r`
(`Micm/Lemmas/ConfigIndepLoop.lean`). -/

section Lockstep
variable (o : Ops K) (cs : Consts K) (p : RosParams K) (kc : Mat K) (atol : Array K) (rtol T hm : K)
variable {procs : List (Process K)} {m : NameMap} {t : PSTables K} {n : Nat}

/-- the storage invariant is an invariant of `rosStep` (each configuration on its own) -/
theorem C12_storeInv_step (s : SolverCfg K) (nCells n : Nat) (r : RState K)
    (h : StoreInv p kc s nCells n r) :
    StoreInv p kc s nCells n (rosStep o cs s p kc atol rtol T hm r) :=
  StoreInv_step o cs p kc atol rtol T hm s nCells n r h

/-- **C12, one iteration of the solver loop** (prologue + one attempt, the model's `rosStep`):
    logically equal states stay logically equal — same `Y`, same `H`, same error, same
    accept/reject decision, same next step size. -/
theorem C12_step_config_indep (hmech : Mechanism procs m t n)
    (s₁ s₂ : SolverCfg K) (csc₁ csc₂ : Bool) (Ls₁ Ls₂ : Nat) (kind₁ kind₂ : LUKind)
    (hs₁ : CfgBuilt s₁ t n csc₁ Ls₁ kind₁) (hs₂ : CfgBuilt s₂ t n csc₂ Ls₂ kind₂)
    (nCells : Nat) (r₁ r₂ : RState K)
    (hI₁ : StoreInv p kc s₁ nCells n r₁) (hI₂ : StoreInv p kc s₂ nCells n r₂)
    (hE : LogicalEq r₁ r₂) (hpiv : PivotsOK o cs p kc T s₁ nCells n r₁) :
    LogicalEq (rosStep o cs s₁ p kc atol rtol T hm r₁) (rosStep o cs s₂ p kc atol rtol T hm r₂) :=
  step_config_indep o cs p kc atol rtol T hm hmech s₁ s₂ csc₁ csc₂ Ls₁ Ls₂ kind₁ kind₂ hs₁ hs₂
    nCells r₁ r₂ hI₁ hI₂ hE hpiv

/-- **C12, the whole solve.**  `rosSolve` of two built configurations of the same mechanism — any
    LU variant, CSR or CSC, any sparse group length, any dense layout `s₁.L`, `s₂.L` — from the same
    `Y`, rate constants and tolerances, with States whose dense buffers coincide and whose sparse
    buffers have the sizes of the respective patterns: if no pivot vanishes along the run of the
    first configuration, both return the same status, final time and solution, the same counters
    (all but `jacobian_updates`, which the in-place variants also bump on every rejection) and the
    same step history `(H, error, accepted)`.  In exact arithmetic there is no "within rounding of
    the threshold" case. -/
theorem C12_solve_config_indep (hmech : Mechanism procs m t n)
    (s₁ s₂ : SolverCfg K) (csc₁ csc₂ : Bool) (Ls₁ Ls₂ : Nat) (kind₁ kind₂ : LUKind)
    (hs₁ : CfgBuilt s₁ t n csc₁ Ls₁ kind₁) (hs₂ : CfgBuilt s₂ t n csc₂ Ls₂ kind₂)
    (nCells : Nat) (Y : Mat K) (sc₁ sc₂ : Scratch K) (fuel : Nat)
    (hY : MatShape nCells n Y)
    (hk : sc₁.k = sc₂.k) (hf0 : sc₁.f0 = sc₂.f0) (hyerr : sc₁.yerr = sc₂.yerr)
    (hKs : KShape nCells n sc₁.k) (hksz : p.stages ≤ sc₁.k.size) (hf0s : MatShape nCells n sc₁.f0)
    (hj₁ : MatShape nCells s₁.la.A.nnz sc₁.jac)
    (hl₁ : s₁.la.kind.inPlace = false → MatShape nCells s₁.la.Lp.nnz sc₁.lower)
    (hu₁ : s₁.la.kind.inPlace = false → MatShape nCells s₁.la.Up.nnz sc₁.upper)
    (hj₂ : MatShape nCells s₂.la.A.nnz sc₂.jac)
    (hl₂ : s₂.la.kind.inPlace = false → MatShape nCells s₂.la.Lp.nnz sc₂.lower)
    (hu₂ : s₂.la.kind.inPlace = false → MatShape nCells s₂.la.Up.nnz sc₂.upper)
    (hpiv : ∀ j, j < fuel → PivotsOK o cs p kc T s₁ nCells n
      ((rosStep o cs s₁ p kc atol rtol T (hmaxEff o p T))^[j] (rosInit (initialH o cs p T) Y sc₁))) :
    (rosSolve o cs s₁ p kc atol rtol T Y sc₁ fuel).status
        = (rosSolve o cs s₂ p kc atol rtol T Y sc₂ fuel).status ∧
    (rosSolve o cs s₁ p kc atol rtol T Y sc₁ fuel).finalTime
        = (rosSolve o cs s₂ p kc atol rtol T Y sc₂ fuel).finalTime ∧
    (rosSolve o cs s₁ p kc atol rtol T Y sc₁ fuel).Y
        = (rosSolve o cs s₂ p kc atol rtol T Y sc₂ fuel).Y ∧
    (rosSolve o cs s₁ p kc atol rtol T Y sc₁ fuel).trace.map attLog
        = (rosSolve o cs s₂ p kc atol rtol T Y sc₂ fuel).trace.map attLog ∧
    (rosSolve o cs s₁ p kc atol rtol T Y sc₁ fuel).stats.numberOfSteps
        = (rosSolve o cs s₂ p kc atol rtol T Y sc₂ fuel).stats.numberOfSteps ∧
    (rosSolve o cs s₁ p kc atol rtol T Y sc₁ fuel).stats.accepted
        = (rosSolve o cs s₂ p kc atol rtol T Y sc₂ fuel).stats.accepted ∧
    (rosSolve o cs s₁ p kc atol rtol T Y sc₁ fuel).stats.rejected
        = (rosSolve o cs s₂ p kc atol rtol T Y sc₂ fuel).stats.rejected ∧
    (rosSolve o cs s₁ p kc atol rtol T Y sc₁ fuel).stats.decompositions
        = (rosSolve o cs s₂ p kc atol rtol T Y sc₂ fuel).stats.decompositions ∧
    (rosSolve o cs s₁ p kc atol rtol T Y sc₁ fuel).stats.solves
        = (rosSolve o cs s₂ p kc atol rtol T Y sc₂ fuel).stats.solves ∧
    (rosSolve o cs s₁ p kc atol rtol T Y sc₁ fuel).stats.functionCalls
        = (rosSolve o cs s₂ p kc atol rtol T Y sc₂ fuel).stats.functionCalls :=
  solve_config_indep o cs p kc atol rtol T hmech s₁ s₂ csc₁ csc₂ Ls₁ Ls₂ kind₁ kind₂ hs₁ hs₂ nCells
    Y sc₁ sc₂ fuel hY hk hf0 hyerr hKs hksz hf0s hj₁ hl₁ hu₁ hj₂ hl₂ hu₂ hpiv

end Lockstep

/-! ## Examples: 3×3, `A` lacks (0,2),(1,2),(2,1); fill-in at (2,1)  (the pattern of C03) -/

namespace C12Ex

def set3 : List Pair := [(0,0),(0,1),(1,0),(1,1),(2,0),(2,2)]

theorem set3_wf : WF 3 set3 := ⟨by unfold PairSorted; decide, by decide⟩

/-- configuration 1: Doolittle, separate `L`/`U`, CSR, standard ordering -/
def la1 : LinAlg := LinAlg.build .doolittle (Pattern.mk' 3 false 0 set3)
/-- configuration 2: Mozart in place, CSC, vector ordering with `L = 2` -/
def la2 : LinAlg := LinAlg.build .mozartInPlace (Pattern.mk' 3 true 2 set3)

/-- `A = [[2,1,0],[4,3,0],[6,1,7]]` in CSR order of the declared pattern … -/
def a1 : Array ℚ := #[2, 1, 4, 3, 6, 7]
/-- … and in CSC order of the ALU pattern (the fill-in slot (2,1) holds `0`) -/
def a2 : Array ℚ := #[2, 4, 6, 1, 3, 0, 7]

example : la2.A.elems = [(0,0),(0,1),(0,2),(1,0),(1,1),(1,2),(2,2)] := by decide +kernel

/-- the hypotheses of `C12_linear_algebra_config_indep` hold on this instance … -/
example :
    (∀ i, i < 3 → (i, i) ∈ set3) ∧
    (∀ r, r < 3 → ∀ c, c < 3 → view la1.A a1 r c = view la2.A a2 r c) ∧
    (∀ i, i < 3 → la1.pivot a1 #[9,9,9,9,9,9] #[8,8,8,8] i ≠ 0) := by
  decide +kernel

example : la1.SizesOK a1 #[9,9,9,9,9,9] (#[8,8,8,8] : Array ℚ) := by
  show _ ∧ _
  decide +kernel

example : la2.SizesOK a2 #[] (#[] : Array ℚ) := by
  show a2.size = _
  decide +kernel

/-- … and both configurations return `A⁻¹ b` for `b = (1, 2, 3)` -/
example :
    la1.factorSolveCell a1 #[9,9,9,9,9,9] #[8,8,8,8] #[1, 2, 3] = #[(1/2 : ℚ), 0, 0] ∧
    la2.factorSolveCell a2 #[] #[] #[1, 2, 3] = #[(1/2 : ℚ), 0, 0] := by
  decide +kernel

/-- the theorem applied to the instance -/
example (b : Array ℚ) (hb : b.size = 3) :
    ∀ j, j < 3 → rd (la1.factorSolveCell a1 #[9,9,9,9,9,9] #[8,8,8,8] b) j
      = rd (la2.factorSolveCell a2 #[] #[] b) j :=
  C12_linear_algebra_config_indep 3 set3 set3_wf (by decide) .doolittle .mozartInPlace false true 0 2
    a1 #[9,9,9,9,9,9] #[8,8,8,8] a2 #[] #[] b
    (by show _ ∧ _; decide +kernel) (by show a2.size = _; decide +kernel) hb
    (by decide +kernel)
    (fun r c hr hc => (by decide +kernel :
      ∀ r, r < 3 → ∀ c, c < 3 → view la1.A a1 r c = view la2.A a2 r c) r hr c hc)

/-- norm order: 5 cells, `L = 2` (two full groups and a partial one), 2 variables -/
example : normOrder 2 5 2 =
    [(0,0),(1,0),(0,1),(1,1), (2,0),(3,0),(2,1),(3,1), (4,0),(4,1)] := by decide
example : normOrder 0 5 2 =
    [(0,0),(0,1),(1,0),(1,1),(2,0),(2,1),(3,0),(3,1),(4,0),(4,1)] := by decide

/-- relabelling on C02's mechanism `s0 + s0 + s1 → 2 s2 ; s2 → s0` with the transposition `0 ↔ 2` -/
def swap02 (i : Nat) : Nat := if i = 0 then 2 else if i = 2 then 0 else i

theorem swap02_inj : Function.Injective swap02 := by
  intro a b h
  unfold swap02 at h
  split at h <;> split at h <;> (try split at h) <;> (try split at h) <;> omega

example : relabel swap02 c02Map = [("s0", 2), ("s1", 1), ("s2", 0)] := by decide

example : ∃ t', ProcessSet.build (c02Procs ℚ) (relabel swap02 c02Map) = .ok t' :=
  (C12_permutation_builds swap02 c02Map (c02Procs ℚ)).mpr ⟨_, c02Build ℚ⟩

/-! ### a whole solve: C02's mechanism `s0 + s0 + s1 → 2 s2 ; s2 → s0`, two cells, configurations
    (Doolittle, CSR, `L = 0`) and (Mozart in place, CSC, `L = 2`); the ALU pattern has a fill-in
    at (1,2) -/

def solveCfg (kind : LUKind) (csc : Bool) (L : Nat) : SolverCfg ℚ :=
  let la := LinAlg.build kind
    (Pattern.mk' 3 csc L (buildJacobianSet 3 (c02Tables ℚ).nonZeroJacobianElements))
  { nSpecies := 3, L := L, tables := c02Tables ℚ,
    flatIds := match (c02Tables ℚ).jacobianFlatIds la.A with | .ok f => f | .error _ => [],
    la := la, diag := la.A.diagRanks }

def cfgA : SolverCfg ℚ := solveCfg .doolittle false 0
def cfgB : SolverCfg ℚ := solveCfg .mozartInPlace true 2

def dense0 : Mat ℚ := #[#[0, 0, 0], #[0, 0, 0]]

def solveScratch (s : SolverCfg ℚ) : Scratch ℚ :=
  { jac := Array.replicate 2 (Array.replicate s.la.A.nnz 0),
    lower := Array.replicate 2 (Array.replicate s.la.Lp.nnz 0),
    upper := Array.replicate 2 (Array.replicate s.la.Up.nnz 0),
    ynew := dense0, f0 := dense0, k := #[dense0], yerr := dense0 }

def exKc : Mat ℚ := #[#[3, 5], #[1, 2]]
def exY0 : Mat ℚ := #[#[2, 7, 11], #[1, 1, 1]]
def exAtol : Array ℚ := #[1/10, 1/10, 1/10]

example : cfgA.la.A.nnz = 8 ∧ cfgB.la.A.nnz = 9 := by decide +kernel

theorem exMech : Mechanism (c02Procs ℚ) c02Map (c02Tables ℚ) 3 where
  built := c02Build ℚ
  names := by decide
  ids := by decide
  param := by simp [c02Procs]
  range := by decide

theorem cfgA_built : CfgBuilt cfgA (c02Tables ℚ) 3 false 0 .doolittle :=
  ⟨rfl, rfl, rfl, by decide +kernel, rfl⟩

theorem cfgB_built : CfgBuilt cfgB (c02Tables ℚ) 3 true 2 .mozartInPlace :=
  ⟨rfl, rfl, rfl, by decide +kernel, rfl⟩

theorem dense0_shape : MatShape 2 3 dense0 := ⟨rfl, by decide⟩

/-- no pivot vanishes in the first four iterations of configuration A (`T = 1`: two rejected
    attempts with `H = 1, 1/5`, then two accepted steps) -/
theorem exPivots : ∀ j, j < 4 → PivotsOK ratOps Ex.consts Ex.params exKc 1 cfgA 2 3
    ((rosStep ratOps Ex.consts cfgA Ex.params exKc exAtol (1/10) 1
        (hmaxEff ratOps Ex.params 1))^[j]
      (rosInit (initialH ratOps Ex.consts Ex.params 1) exY0 (solveScratch cfgA))) := by
  unfold PivotsOK
  decide +kernel

/-- `C12_solve_config_indep` applies: all hypotheses hold on the instance -/
example :=
  C12_solve_config_indep ratOps Ex.consts Ex.params exKc exAtol (1/10) 1 exMech cfgA cfgB
    false true 0 2 .doolittle .mozartInPlace cfgA_built cfgB_built 2 exY0 (solveScratch cfgA)
    (solveScratch cfgB) 4 (by exact ⟨rfl, by decide⟩) rfl rfl rfl
    (by intro j hj; have : j = 0 := by simpa [solveScratch] using hj
        subst this; exact dense0_shape)
    (by decide) dense0_shape
    ⟨by simp [solveScratch], by decide +kernel⟩
    (fun _ => ⟨by simp [solveScratch], by decide +kernel⟩)
    (fun _ => ⟨by simp [solveScratch], by decide +kernel⟩)
    ⟨by simp [solveScratch], by decide +kernel⟩
    (fun h => by cases h) (fun h => by cases h) exPivots

/-- and the two runs, evaluated: same history (two rejections, then acceptances); the physical
    matrices differ (8 resp. 9 stored elements per cell) and so does `jacobian_updates`
    (the in-place variant regenerates the Jacobian after each rejection) -/
example :
    (rosSolve ratOps Ex.consts cfgA Ex.params exKc exAtol (1/10) 1 exY0 (solveScratch cfgA) 4).trace.map
        (fun a => (a.h, a.accepted))
      = [(1, false), (1/5, false), (13140278038275322889772/173240972008810191428125, true),
         (13140278038275322889772/173240972008810191428125, true)] ∧
    (rosSolve ratOps Ex.consts cfgB Ex.params exKc exAtol (1/10) 1 exY0 (solveScratch cfgB) 4).trace.map
        (fun a => (a.h, a.accepted))
      = [(1, false), (1/5, false), (13140278038275322889772/173240972008810191428125, true),
         (13140278038275322889772/173240972008810191428125, true)] ∧
    ((rosSolve ratOps Ex.consts cfgA Ex.params exKc exAtol (1/10) 1 exY0 (solveScratch cfgA) 4).trace.map
        (fun a => (a.matrix.getD 0 #[]).size)) = [8, 8, 8, 8] ∧
    ((rosSolve ratOps Ex.consts cfgB Ex.params exKc exAtol (1/10) 1 exY0 (solveScratch cfgB) 4).trace.map
        (fun a => (a.matrix.getD 0 #[]).size)) = [9, 9, 9, 9] ∧
    (rosSolve ratOps Ex.consts cfgA Ex.params exKc exAtol (1/10) 1 exY0 (solveScratch cfgA) 4).stats.jacobianUpdates = 2 ∧
    (rosSolve ratOps Ex.consts cfgB Ex.params exKc exAtol (1/10) 1 exY0 (solveScratch cfgB) 4).stats.jacobianUpdates = 4 := by
  decide +kernel

end C12Ex

end Micm

#print axioms Micm.C12_solution_unique
#print axioms Micm.C12_linear_algebra_config_indep
#print axioms Micm.C12_linear_algebra_config_indep_patterns
#print axioms Micm.C12_pivots_config_indep
#print axioms Micm.C12_factorSolveCell_is_model
#print axioms Micm.C12_linSolve_config_indep
#print axioms Micm.C12_forcing_config_indep
#print axioms Micm.C12_jacobian_config_indep
#print axioms Micm.C12_jacobian_any_pattern
#print axioms Micm.C12_forcing_permutation
#print axioms Micm.C12_permutation_builds
#print axioms Micm.C12_jacobian_permutation
#print axioms Micm.C12_linear_algebra_permutation
#print axioms Micm.C12_normOrder_perm
#print axioms Micm.C12_norm_layout_indep
#print axioms Micm.C12_norm_sum
#print axioms Micm.C12_matrix_config_indep
#print axioms Micm.C12_attempt_config_indep
#print axioms Micm.C12_stages_config_indep
#print axioms Micm.C12_storeInv_step
#print axioms Micm.C12_step_config_indep
#print axioms Micm.C12_solve_config_indep
