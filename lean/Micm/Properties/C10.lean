/-
  C10 — non-negative results; a NaN is never silently accepted.

  All statements are about the model definitions `clampNonNeg`, `normalizedError`, `ctlDecide`,
  `rosStep`, `rosLoop`, `beIsConverged`, `beStep`, `beSolve` themselves.

  The carrier is arbitrary.  The IEEE-754 facts about NaN that are used are collected in the
  structure `NaNLaws o` (Lemmas/Special.lean): `+ − * /`, `abs`, `sqrt` propagate NaN, every
  comparison with a NaN is false, NaN is not finite, `(double) n` is not NaN.  They are ASSUMED for
  `Float` (binary64) and PROVED for the carrier `NaNRat = Option Rat` (`nanRatOps_laws`), so no
  theorem below is vacuous.

  Proved here:
    * `C10_nonneg`              : after `variables_.Max(0.0)` no entry is `< 0` (NaN included).
    * `C10_norm_nan`            : a NaN entry of `Yerror` at a real (cell, variable) ⇒ the error norm is NaN.
    * `C10_decide_nan`          : NaN error ⇒ decision `nan`, controller untouched.
    * `C10_ros_nan`, `C10_ros_nan_final` : the attempt ends `NaNDetected`, and so does the solve —
                                  never `Converged`.
    * `C10_be_not_converged`    : a NaN residual / new value ⇒ `IsConverged = false` ⇒ that Newton
                                  iteration is not accepted (the outer iteration can only be rejected).
    * `C10_be_converged_finite` : `beSolve … = Converged` ⇒ every residual and every value looked at by
                                  the last convergence test is finite (hence not NaN).
    * `C10_be_clamp_keeps_nan` / `C10_be_old_clamp_loses_nan` : `max(y+f, 0)` keeps a NaN, the former
                                  `max(0, y+f)` replaced it by `0` (the fixed defect, DESIGN §5.3).
    * `C10_forcing_nan(_cell)`  : a NaN rate constant / reactant concentration of a reaction makes the
                                  forcing of all its reactants and products NaN (first link of the chain
                                  forcing → K₀ → Yerr → error).
  NOT proved here (optional part of DESIGN §4 C10): the remaining links "NaN forcing ⇒ NaN `Yerror`"
  through LU / substitution / the stage combination (`C10_ros_nan` of the design takes the NaN at the
  input; here the hypothesis of `C10_ros_nan` is on `Yerror`, i.e. on `attYerr`).  Overflow to `Inf`
  from finite inputs is not modelled (DESIGN: "proof, partial").
-/
import Micm.Lemmas.Special
import Micm.Lemmas.RosLoop
namespace Micm
set_option linter.unusedSectionVars false

/-! ### non-negativity -/

/-- `Solver::Solve` ends with `state.variables_.Max(0.0)`, i.e. `v ↦ std::max(v, 0.0)
    = (v < 0) ? 0 : v` on every element.  Under the single hypothesis `¬ (0 < 0)`:
    no entry of the result is `< 0` — also when `v` is NaN (`NaN < 0` is false, NaN is kept).
    Shape is preserved and every in-range entry is `cmax o v 0` of the old entry. -/
theorem C10_nonneg {α : Type} [OfNat α 0] (o : Ops α) (h00 : o.lt 0 0 = false) (Y : Mat α) :
    (∀ row ∈ clampNonNeg o Y, ∀ x ∈ row, o.lt x 0 = false) ∧
    (∀ c v, o.lt (rd ((clampNonNeg o Y).getD c #[]) v) 0 = false) ∧
    (clampNonNeg o Y).size = Y.size ∧
    (∀ c v, c < Y.size → v < (Y.getD c #[]).size →
      rd ((clampNonNeg o Y).getD c #[]) v = cmax o (rd (Y.getD c #[]) v) 0) := by
  refine ⟨?_, ?_, clampNonNeg_size o Y, ?_⟩
  · intro row hrow x hx
    obtain ⟨_, _, v, _, rfl⟩ := mem_clampNonNeg o Y row x hrow hx
    exact cmax_zero_not_lt o h00 v
  · intro c v
    rw [rd_clampNonNeg]
    split
    · exact cmax_zero_not_lt o h00 _
    · exact h00
  · intro c v hc hv
    rw [rd_clampNonNeg, if_pos ⟨hc, hv⟩]

section NaN
variable {α : Type} [OfNat α 0] [OfNat α 1] [Add α] [Sub α] [Mul α] [Div α]
variable {o : Ops α}

/-! ### Rosenbrock: NaN in the error estimate ⇒ `NaNDetected` -/

/-- If the error-estimate matrix has a NaN at a real (cell, variable) position — `c < #cells`,
    `v < nVars` (these are exactly the members of `normOrder`, for both layouts) — the error norm is
    NaN: the term is NaN, a sum with a NaN term is NaN, so are `/ N`, `sqrt`, and
    `std::max(NaN, errorMin)` returns its first argument. -/
theorem C10_norm_nan (hl : NaNLaws o) (cs : Consts α) (L nVars : Nat) (atol : Array α) (rtol : α)
    (y ynew err : Mat α) (c v : Nat) (hc : c < y.size) (hv : v < nVars)
    (h : o.isNaN (rd (err.getD c #[]) v) = true) :
    o.isNaN (normalizedError o cs L nVars atol rtol y ynew err) = true :=
  hl.normalizedError_term cs L nVars atol rtol y ynew err c v
    ((mem_normOrder L y.size nVars c v).2 ⟨hc, hv⟩) (hl.errTerm atol rtol y ynew err c v h)

/-- more generally: any NaN *term* of the norm (e.g. from a NaN tolerance or NaN `y`) -/
theorem C10_norm_nan_term (hl : NaNLaws o) (cs : Consts α) (L nVars : Nat) (atol : Array α) (rtol : α)
    (y ynew err : Mat α) (c v : Nat) (hc : c < y.size) (hv : v < nVars)
    (h : o.isNaN (errTerm o atol rtol y ynew err c v) = true) :
    o.isNaN (normalizedError o cs L nVars atol rtol y ynew err) = true :=
  hl.normalizedError_term cs L nVars atol rtol y ynew err c v
    ((mem_normOrder L y.size nVars c v).2 ⟨hc, hv⟩) h

/-- a NaN error is answered by the `nan` decision with the controller state untouched
    (no law needed: `std::isnan(error)` is the first test) -/
theorem C10_decide_nan (o : Ops α) (p : RosParams α) (hmaxEff : α) (c : Ctl α) (error : α)
    (h : o.isNaN error = true) : ctlDecide o p hmaxEff c error = (.nan, c) := by
  rw [ctlDecide_eq, if_pos h]

variable (cs : Consts α) (s : SolverCfg α) (p : RosParams α) (kc : Mat α)
    (atol : Array α) (rtol : α) (timeStep hm : α)

/-- One iteration of the Rosenbrock loop in which an attempt is made (the prologue leaves the
    status `running`) and whose error norm is NaN ends with status `NaNDetected`; the attempt is
    recorded as not accepted. -/
theorem C10_ros_nan_error (o : Ops α) (r : RState α)
    (hrun : (rosPrologue o cs s p kc timeStep r).status = .running)
    (hnan : o.isNaN (attError o cs s p kc atol rtol (rosPrologue o cs s p kc timeStep r)) = true) :
    (rosStep o cs s p kc atol rtol timeStep hm r).status = .nanDetected ∧
    (∃ att, (rosStep o cs s p kc atol rtol timeStep hm r).trace = att :: r.trace ∧ att.accepted = false) := by
  have hd : attDecide o cs s p kc atol rtol hm (rosPrologue o cs s p kc timeStep r) =
      (.nan, (rosPrologue o cs s p kc timeStep r).ctl) := by
    unfold attDecide; exact C10_decide_nan o p hm _ _ hnan
  refine ⟨?_, ?_⟩
  · rw [rosStep_attempt _ _ _ _ _ _ _ _ _ _ hrun, rosAttempt_status, hd]
  · refine ⟨attRecord o cs s p kc atol rtol hm (rosPrologue o cs s p kc timeStep r), ?_, ?_⟩
    · rw [rosStep_trace, if_pos hrun]
    · simp [attRecord, hd, decision_beq_accept]

/-- the same with the NaN located in the error-estimate matrix `Yerror` of the attempt -/
theorem C10_ros_nan (hl : NaNLaws o) (r : RState α)
    (hrun : (rosPrologue o cs s p kc timeStep r).status = .running)
    (c v : Nat) (hc : c < r.Y.size) (hv : v < s.nSpecies)
    (hnan : o.isNaN (rd ((attYerr s p kc (rosPrologue o cs s p kc timeStep r)).getD c #[]) v) = true) :
    (rosStep o cs s p kc atol rtol timeStep hm r).status = .nanDetected := by
  refine (C10_ros_nan_error cs s p kc atol rtol timeStep hm o r hrun ?_).1
  unfold attError
  refine C10_norm_nan hl cs s.L s.nSpecies atol rtol _ _ _ c v ?_ hv hnan
  rw [(rosPrologue_frame o cs s p kc timeStep r).2.1]; exact hc

/-- `rosLoop` stops at once on a non-running status -/
theorem rosLoop_of_not_running (o : Ops α) (fuel : Nat) (r : RState α) (h : r.status ≠ .running) :
    rosLoop o cs s p kc atol rtol timeStep hm fuel r = r := by
  cases fuel with
  | zero => rw [rosLoop_zero, if_neg h]
  | succ n => rw [rosLoop_succ, if_neg h]

/-- hence the whole loop (and `rosSolve`, which returns the loop's status) ends `NaNDetected`,
    never `Converged`, when the next attempt has a NaN error norm -/
theorem C10_ros_nan_final (o : Ops α) (fuel : Nat) (r : RState α) (hr : r.status = .running)
    (hrun : (rosPrologue o cs s p kc timeStep r).status = .running)
    (hnan : o.isNaN (attError o cs s p kc atol rtol (rosPrologue o cs s p kc timeStep r)) = true) :
    (rosLoop o cs s p kc atol rtol timeStep hm (fuel + 1) r).status = .nanDetected := by
  have h1 := (C10_ros_nan_error cs s p kc atol rtol timeStep hm o r hrun hnan).1
  rw [rosLoop_succ, if_pos hr, rosLoop_of_not_running]
  · exact h1
  · rw [h1]; decide

/-! ### forward propagation through the forcing kernel -/

/-- **NaN concentration / NaN rate constant ⇒ NaN forcing.**  For the tables built from a mechanism
    (`ProcessSet.build … = ok t`, reactions resolved to id lists `rxns`): if the `n`-th reaction has a
    NaN rate constant, or a NaN concentration for one of its (non-parameterized) reactants, then
    `AddForcingTerms` leaves a NaN in the forcing of every reactant and every product of that
    reaction (for in-range species ids; out-of-range writes do not exist in a built solver, C01). -/
theorem C10_forcing_nan (hl : NaNLaws o) {m : NameMap} {procs : List (Process α)} {t : PSTables α}
    {rxns : List (RRxn α)} (hb : ProcessSet.build procs m = .ok t) (hr : Resolves m procs rxns)
    (k y f : Array α) (n : Nat) (rx : RRxn α) (kn : α) (hrx : rxns[n]? = some rx) (hk : k[n]? = some kn)
    (hnan : o.isNaN kn = true ∨ ∃ j ∈ rx.1, o.isNaN (rd y j) = true)
    (i : Nat) (hi : i < f.size) (hmem : i ∈ rx.1 ∨ ∃ p ∈ rx.2, p.1 = i) :
    o.isNaN (rd (t.addForcingCell k y f) i) = true := by
  rw [ProcessSet.build_ok_addForcingCell hb hr]
  exact hl.forcingSpec_nan y rxns k.toList f n rx kn hrx (by simpa using hk) hnan i hi hmem

/-- the same for a whole `forcing` evaluation of the solver (cell `c` of the dense matrices) -/
theorem C10_forcing_nan_cell (hl : NaNLaws o) (s : SolverCfg α) {m : NameMap} {procs : List (Process α)}
    {rxns : List (RRxn α)} (hb : ProcessSet.build procs m = .ok s.tables) (hr : Resolves m procs rxns)
    (kc Y F : Mat α) (c : Nat) (hc : c < F.size) (n : Nat) (rx : RRxn α) (kn : α)
    (hrx : rxns[n]? = some rx) (hk : (kc.getD c #[])[n]? = some kn)
    (hnan : o.isNaN kn = true ∨ ∃ j ∈ rx.1, o.isNaN (rd (Y.getD c #[]) j) = true)
    (i : Nat) (hi : i < (F.getD c #[]).size) (hmem : i ∈ rx.1 ∨ ∃ p ∈ rx.2, p.1 = i) :
    o.isNaN (rd ((s.forcing kc Y F).getD c #[]) i) = true := by
  have e : (s.forcing kc Y F).getD c #[] =
      s.tables.addForcingCell (kc.getD c #[]) (Y.getD c #[]) (F.getD c #[]) := by
    simp [SolverCfg.forcing, Array.getD, hc]
  rw [e]
  exact C10_forcing_nan hl hb hr _ _ _ n rx kn hrx hk hnan i hi hmem

end NaN

/-! ### backward Euler -/

section BE
variable {α : Type} [OfNat α 0] [OfNat α 1] [OfNat α 2] [Add α] [Sub α] [Mul α] [Div α]
variable {o : Ops α} (s : SolverCfg α) (p : BEParams α) (kc : Mat α) (atol : Array α) (rtol : α)
    (timeStep : α)

/-- `IsConverged` answers `false` as soon as one residual or one new value it visits is NaN
    (first conjuncts `isfinite(residual) && isfinite(Yn1)`).  The visited positions are those of
    the residual matrix: `c < res.size`, `v < res[c].size`. -/
theorem C10_be_isConverged_nan (hl : NaNLaws o) (small : α) (res yn1 : Mat α) (c v : Nat)
    (hc : c < res.size) (hv : v < (res.getD c #[]).size)
    (h : o.isNaN (rd (res.getD c #[]) v) = true ∨ o.isNaN (rd (yn1.getD c #[]) v) = true) :
    beIsConverged o small atol rtol res yn1 = false :=
  NaNLaws.beIsConverged_false o atol rtol hl small res yn1 c v hc hv h

/-- A Newton iteration (the post-head state is not `done`) whose residual or new iterate has a NaN
    at a visited position is never an accepting one: `accepted` and `Yn` are unchanged and the
    status is the post-head status (`running` inside an outer iteration) or
    `acceptingUnconvergedIntegration` — not a fresh `converged`. -/
theorem C10_be_not_converged (hl : NaNLaws o) (r : BEState α) (c v : Nat)
    (hc : c < (beResidual s kc (beHead o timeStep r)).size)
    (hv : v < ((beResidual s kc (beHead o timeStep r)).getD c #[]).size)
    (h : o.isNaN (rd ((beResidual s kc (beHead o timeStep r)).getD c #[]) v) = true ∨
         o.isNaN (rd ((beNewY o s kc (beHead o timeStep r)).getD c #[]) v) = true) :
    beConv o s p kc atol rtol (beHead o timeStep r) = false ∧
    (beStep o s p kc atol rtol timeStep r).stats.accepted = r.stats.accepted ∧
    (beStep o s p kc atol rtol timeStep r).Yn = r.Yn ∧
    ((beStep o s p kc atol rtol timeStep r).status = (beHead o timeStep r).status ∨
     (beStep o s p kc atol rtol timeStep r).status = .acceptingUnconvergedIntegration) := by
  have hconv : beConv o s p kc atol rtol (beHead o timeStep r) = false := by
    unfold beConv; split
    · rfl
    · exact NaNLaws.beIsConverged_false o atol rtol hl p.small _ _ c v hc hv h
  exact ⟨hconv, beStep_of_not_conv o s p kc atol rtol timeStep r hconv⟩

/-- `beSolve` reports `Converged` only if the last inner loop saw finite data: every residual
    (returned in `sc.f0`, the model's `forcing_`) and every value of the result `Y` at a position
    visited by the last convergence test is finite — hence, under `NaNLaws`, not NaN.
    (No law is needed for the finiteness statement itself.) -/
theorem C10_be_converged_finite (o : Ops α) (Y : Mat α) (sc : Scratch α) (fuel : Nat)
    (h : (beSolve o s p kc atol rtol timeStep Y sc fuel).status = .converged) :
    ∀ c v, c < (beSolve o s p kc atol rtol timeStep Y sc fuel).sc.f0.size →
      v < ((beSolve o s p kc atol rtol timeStep Y sc fuel).sc.f0.getD c #[]).size →
      o.isFinite (rd ((beSolve o s p kc atol rtol timeStep Y sc fuel).sc.f0.getD c #[]) v) = true ∧
      o.isFinite (rd ((beSolve o s p kc atol rtol timeStep Y sc fuel).Y.getD c #[]) v) = true :=
  beSolve_converged_finite o s p kc atol rtol timeStep Y sc fuel h

theorem C10_be_converged_no_nan (hl : NaNLaws o) (Y : Mat α) (sc : Scratch α) (fuel : Nat)
    (h : (beSolve o s p kc atol rtol timeStep Y sc fuel).status = .converged) (c v : Nat)
    (hc : c < (beSolve o s p kc atol rtol timeStep Y sc fuel).sc.f0.size)
    (hv : v < ((beSolve o s p kc atol rtol timeStep Y sc fuel).sc.f0.getD c #[]).size) :
    o.isNaN (rd ((beSolve o s p kc atol rtol timeStep Y sc fuel).Y.getD c #[]) v) = false := by
  have hf := (C10_be_converged_finite s p kc atol rtol timeStep o Y sc fuel h c v hc hv).2
  cases hn : o.isNaN (rd ((beSolve o s p kc atol rtol timeStep Y sc fuel).Y.getD c #[]) v)
  · rfl
  · rw [hl.notFinite _ hn] at hf; cases hf

/-- the clamp of the current source, `std::max(y + f, 0.0)`, keeps a NaN … -/
theorem C10_be_clamp_keeps_nan (hl : NaNLaws o) (y f : α) (h : o.isNaN (y + f) = true) :
    cmax o (y + f) 0 = y + f ∧ o.isNaN (cmax o (y + f) 0) = true := by
  rw [hl.cmax_left _ _ h]; exact ⟨rfl, h⟩

/-- … whereas the former `std::max(0.0, y + f)` replaced it by `0.0` (the defect that was fixed:
    with it a NaN concentration became `0` and `IsConverged` could then answer `true`). -/
theorem C10_be_old_clamp_loses_nan (hl : NaNLaws o) (y f : α) (h : o.isNaN (y + f) = true) :
    cmax o 0 (y + f) = 0 :=
  hl.cmax_right _ _ h

/-- in `beStep`: a NaN update entry gives a NaN new value (in-range positions) -/
theorem C10_be_newY_nan (hl : NaNLaws o) (r : BEState α) (c v : Nat) (hc : c < r.Yn1.size)
    (hv : v < (r.Yn1.getD c #[]).size)
    (h : o.isNaN (rd ((beResidual s kc r).getD c #[]) v) = true ∨ o.isNaN (rd (r.Yn1.getD c #[]) v) = true) :
    o.isNaN (rd ((beNewY o s kc r).getD c #[]) v) = true := by
  have hv' : v < r.Yn1[c].size := by simpa [Array.getD, hc] using hv
  have e : rd ((beNewY o s kc r).getD c #[]) v =
      cmax o (rd (r.Yn1.getD c #[]) v + rd ((beResidual s kc r).getD c #[]) v) 0 := by
    simp [beNewY, rd, Array.getD, hc, hv']
  rw [e]
  have hs : o.isNaN (rd (r.Yn1.getD c #[]) v + rd ((beResidual s kc r).getD c #[]) v) = true :=
    hl.add _ _ (h.symm)
  exact (C10_be_clamp_keeps_nan hl _ _ hs).2

end BE

/-! ### the hypotheses are satisfiable (carrier `NaNRat`, `none` = NaN) -/

example : NaNLaws nanRatOps := nanRatOps_laws
example : nanRatOps.lt (0 : NaNRat) 0 = false := by decide

/-- a concrete error norm with a NaN entry in `Yerror` (2 cells × 2 variables, vector layout L = 2) -/
example :
    nanRatOps.isNaN (normalizedError nanRatOps ⟨1, 1, 1, 1⟩ 2 2 #[1, 1] 1
      #[#[1, 2], #[3, 4]] #[#[1, 2], #[3, 4]] #[#[0, 0], #[NaNRat.nan, 0]]) = true :=
  C10_norm_nan nanRatOps_laws _ 2 2 _ _ _ _ _ 1 0 (by decide) (by decide) rfl

/-- the clamp keeps NaN / the old clamp loses it, on `NaNRat` -/
example : cmax nanRatOps (NaNRat.nan + 1) 0 = NaNRat.nan ∧ cmax nanRatOps 0 (NaNRat.nan + 1) = 0 :=
  ⟨rfl, rfl⟩

/-- `C10_nonneg` on a matrix holding a negative number, a positive number and a NaN -/
example : clampNonNeg nanRatOps #[#[NaNRat.ofRat (-3), 2, NaNRat.nan]] = #[#[0, 2, NaNRat.nan]] := by
  decide +kernel

/-- the mechanism `A → B` with the species map `A ↦ 0, B ↦ 1` -/
def c10procs : List (Process NaNRat) := [{ reactants := [⟨"A", false⟩], products := [(⟨"B", false⟩, 1)] }]
def c10map : NameMap := [("A", 0), ("B", 1)]
def c10tables : PSTables NaNRat :=
  { tablesOf [([0], [(1, 1)])] with jInfo := [⟨0, 0, 0, 1⟩], jReactIds := [], jProdIds := [1], jYields := [1] }

theorem c10_build : ProcessSet.build c10procs c10map = .ok c10tables := rfl
theorem c10_resolves : Resolves c10map c10procs [([0], [(1, 1)])] := rfl

/-- `C10_forcing_nan` on it: rate constant 2, `[A] = NaN`, `[B] = 1` ⇒ both forcing entries are NaN -/
example :
    nanRatOps.isNaN (rd (c10tables.addForcingCell #[2] #[NaNRat.nan, 1] #[0, 0]) 0) = true ∧
    nanRatOps.isNaN (rd (c10tables.addForcingCell #[2] #[NaNRat.nan, 1] #[0, 0]) 1) = true :=
  ⟨C10_forcing_nan nanRatOps_laws c10_build c10_resolves _ _ _ 0 _ 2 rfl rfl
      (Or.inr ⟨0, by simp, rfl⟩) 0 (by decide) (Or.inl (by simp)),
   C10_forcing_nan nanRatOps_laws c10_build c10_resolves _ _ _ 0 _ 2 rfl rfl
      (Or.inr ⟨0, by simp, rfl⟩) 1 (by decide) (Or.inr ⟨(1, 1), by simp, rfl⟩)⟩

#print axioms C10_nonneg
#print axioms C10_norm_nan
#print axioms C10_norm_nan_term
#print axioms C10_decide_nan
#print axioms C10_ros_nan_error
#print axioms C10_ros_nan
#print axioms C10_ros_nan_final
#print axioms C10_forcing_nan
#print axioms C10_forcing_nan_cell
#print axioms C10_be_isConverged_nan
#print axioms C10_be_not_converged
#print axioms C10_be_converged_finite
#print axioms C10_be_converged_no_nan
#print axioms C10_be_clamp_keeps_nan
#print axioms C10_be_old_clamp_loses_nan
#print axioms C10_be_newY_nan

end Micm
