/-
C08 (backward-Euler part) — on a linear mechanism one Newton iteration solves the backward-Euler
equation exactly: from `Yn1 = Yn = y_n` the first iterate (before clipping) is `(I − H A)⁻¹ y_n`,
i.e. satisfies `(I − H A) y = y_n`; a second iteration computes `δ = 0`.

Subject: `beStep` of `Micm/Model/BackwardEuler.lean`, exact arithmetic (`[Field K]`), logical rows of one
cell `c`, configuration built as the builder does (`BuiltCfg`, all four LU variants).
Linearity is a hypothesis on the model's own forcing / Jacobian views of cell `c`:
  `f(y) = A y`   : `addForcingCell k y 0 = A·y`   (mass-action forcing assembled into a zero vector),
  `∂f/∂y = A`    : `negJac m procs k y = −A`      (`negJac` = the logical `−∂f/∂y` of C02),
for a matrix `A` that does not depend on `y` (it holds when every reaction has exactly one
non-parameterized reactant; `BEEx.exLinF`, `BEEx.exLinJ` prove it for `A → B`).
Vocabulary: `beUnclipped s kc r` = `Yn1 + δ` (the iterate before `max(·,0)`), `beNewY` its clamp,
`beForcing`, `beFactor`, `beHead` as in C05b.
-/
import Micm.Lemmas.BackwardEuler

namespace Micm
set_option linter.unusedSectionVars false
open Finset

section Exact
variable {K : Type} [Field K]
variable (o : Ops K) {s : SolverCfg K} (p : BEParams K) (kc : Mat K) (atol : Array K) (rtol : K)
    (T : K) {n : Nat} (c : Nat) {m : NameMap} {procs : List (Process K)} {kind : LUKind}
    {jac : Pattern}

/-- **first iteration** (one-point form: linearity is only used at the current `Yn1`).
    If `Yn1 = Yn` on the cell, `f(Yn1) = A·Yn1`, `∂f/∂y(Yn1) = A`, `H ≠ 0` and no pivot is zero, the
    un-clipped Newton iterate `y = Yn1 + δ` satisfies `(I − H A) y = Yn`. -/
theorem C08_be_linear_first (hb : BuiltCfg s m procs n kind jac) (A : Nat → Nat → K) (r : BEState K)
    (hh : r.h ≠ 0) (hY : CellShape n c r.Yn1) (hf0 : CellShape n c r.sc.f0)
    (hj : CellShape s.la.A.nnz c r.sc.jac) (hl : CellShape s.la.Lp.nnz c r.sc.lower)
    (hu : CellShape s.la.Up.nnz c r.sc.upper)
    (hpiv : ∀ i, i < n → attPivot s (beFactor s kc r) c i ≠ 0)
    (hstart : ∀ i, i < n → rd (r.Yn1.getD c #[]) i = rd (r.Yn.getD c #[]) i)
    (hlinF : ∀ i, i < n →
      rd (s.tables.addForcingCell (kc.getD c #[]) (r.Yn1.getD c #[]) (Array.replicate n 0)) i
        = ∑ j ∈ range n, A i j * rd (r.Yn1.getD c #[]) j)
    (hlinJ : ∀ i j, i < n → j < n →
      negJac m procs (kc.getD c #[]) (r.Yn1.getD c #[]) i j = - A i j) :
    ∀ i, i < n → ∑ j ∈ range n, ((if i = j then 1 else 0) - r.h * A i j)
      * rd ((beUnclipped s kc r).getD c #[]) j = rd (r.Yn.getD c #[]) i :=
  fun i hi => be_linear_first kc c hb A r hh hY hf0 hj hl hu hpiv hstart
    (fun i hi => by rw [(beForcing_cell kc c s r hf0).2]; exact hlinF i hi) hlinJ i hi

/-- **fixed point**: if `Yn1` already satisfies `(I − H A) Yn1 = Yn` and `f(Yn1) = A·Yn1`, the
    residual vanishes and `Solve` returns `δ = 0` (no pivot hypothesis is needed: the substitution
    of a zero right-hand side is zero whatever the factors hold) -/
theorem C08_be_linear_fixed (A : Nat → Nat → K) (r : BEState K) (hh : r.h ≠ 0)
    (hf0 : CellShape n c r.sc.f0)
    (hlinF : ∀ i, i < n →
      rd (s.tables.addForcingCell (kc.getD c #[]) (r.Yn1.getD c #[]) (Array.replicate n 0)) i
        = ∑ j ∈ range n, A i j * rd (r.Yn1.getD c #[]) j)
    (hfix : ∀ i, i < n → ∑ j ∈ range n, ((if i = j then 1 else 0) - r.h * A i j)
      * rd (r.Yn1.getD c #[]) j = rd (r.Yn.getD c #[]) i) :
    ∀ v, rd ((beResidual s kc r).getD c #[]) v = 0 :=
  be_linear_fixed kc c s A r hh hf0
    (fun i hi => by rw [(beForcing_cell kc c s r hf0).2]; exact hlinF i hi) hfix

/-- **C08 for backward Euler.**  Let `r` be a loop state at the start of an outer iteration
    (`iterations = 0`, the `while` test passes, `Yn1 = Yn` on cell `c`), `max_number_of_steps > 1`,
    `H ≠ 0`, the buffers of cell `c` of the configured sizes, no zero pivot, and the mechanism linear
    on cell `c` (`f(y) = A y`, `∂f/∂y = A` for every `y`).  If the first iterate is not changed by
    the clamp, then
    1. after the first iteration `Yn1` satisfies `(I − H A) Yn1 = Yn`, i.e. `Yn1 = (I − H A)⁻¹ y_n`;
    2. the second iteration leaves `δ = 0` in `forcing_`. -/
theorem C08_be_linear (hb : BuiltCfg s m procs n kind jac) (A : Nat → Nat → K) (r : BEState K)
    (h0 : r.iterations = 0) (hd : (beHead o T r).done = false) (hm : 1 < p.maxSteps)
    (hh : r.h ≠ 0) (hY : CellShape n c r.Yn1) (hf0 : CellShape n c r.sc.f0)
    (hj : CellShape s.la.A.nnz c r.sc.jac) (hl : CellShape s.la.Lp.nnz c r.sc.lower)
    (hu : CellShape s.la.Up.nnz c r.sc.upper)
    (hpiv : ∀ i, i < n → attPivot s (beFactor s kc r) c i ≠ 0)
    (hstart : ∀ i, i < n → rd (r.Yn1.getD c #[]) i = rd (r.Yn.getD c #[]) i)
    (hlinF : ∀ y : Array K, ∀ i, i < n →
      rd (s.tables.addForcingCell (kc.getD c #[]) y (Array.replicate n 0)) i
        = ∑ j ∈ range n, A i j * rd y j)
    (hlinJ : ∀ y : Array K, ∀ i j, i < n → j < n → negJac m procs (kc.getD c #[]) y i j = - A i j)
    (hnoclip : ∀ v, v < n → rd ((beNewY o s kc r).getD c #[]) v
      = rd ((beUnclipped s kc r).getD c #[]) v) :
    (∀ i, i < n → ∑ j ∈ range n, ((if i = j then 1 else 0) - r.h * A i j)
      * rd ((beStep o s p kc atol rtol T r).Yn1.getD c #[]) j = rd (r.Yn.getD c #[]) i) ∧
    (∀ v, rd ((beStep o s p kc atol rtol T (beStep o s p kc atol rtol T r)).sc.f0.getD c #[]) v = 0) :=
  be_linear_two_steps o p kc atol rtol T c hb A r h0 hd hm hh hY hf0 hj hl hu hpiv hstart hlinF hlinJ
    hnoclip

end Exact

/-! ### the hypotheses are satisfiable: `A → B` is linear with `A = [[−k, 0], [k, 0]]` -/

namespace BEEx

/-- `A = [[−k, 0], [k, 0]]` -/
def exA (k0 : ℚ) : Nat → Nat → ℚ := fun i j =>
  if j = 0 then (if i = 0 then -k0 else if i = 1 then k0 else 0) else 0

/-- `∂f/∂y = A` for every rate-constant vector `k` and every `y` -/
theorem exLinJ (k y : Array ℚ) (i j : Nat) (hi : i < 2) (hj : j < 2) :
    negJac nmap procs k y i j = - exA (rd k 0) i j := by
  have e1 : specReactIds nmap [(⟨"A", false⟩ : SpecRef)] = [0] := by decide
  have e2 : specProdIds nmap [((⟨"B", false⟩ : SpecRef), (1 : ℚ))] = [(1, 1)] := by decide
  have hi' : i = 0 ∨ i = 1 := by omega
  have hj' : j = 0 ∨ j = 1 := by omega
  rcases hi' with rfl | rfl <;> rcases hj' with rfl | rfl <;>
    simp [negJac, procs, List.zipIdx, e1, e2, jacNet, dMonomial, exA]

/-- `f(y) = A y` for every rate-constant vector `k` and every `y` -/
theorem exLinF (k y : Array ℚ) (i : Nat) (hi : i < 2) :
    rd (tables.addForcingCell k y (Array.replicate 2 0)) i
      = ∑ j ∈ range 2, exA (rd k 0) i j * rd y j := by
  rw [ProcessSet.build_ok_addForcingCell exBuild exResolves k y _]
  have hi' : i = 0 ∨ i = 1 := by omega
  rcases k with ⟨l⟩
  cases l with
  | nil =>
    rcases hi' with rfl | rfl <;> simp [forcingSpec, rxns, exA, rd]
  | cons k0 ks =>
    have hl : (⟨k0 :: ks⟩ : Array ℚ).toList = k0 :: ks := rfl
    have hk : rd (⟨k0 :: ks⟩ : Array ℚ) 0 = k0 := rfl
    rw [hl, hk]
    unfold rxns
    rw [forcingSpec_cons]
    rcases hi' with rfl | rfl <;>
      simp [forcingSpec, rxnStep, rxnRate, exA, rd_wr, rd_replicate_zero]

/-- the remaining hypotheses of `C08_be_linear` at the initial state of the run
    (`k = 1`, `Y₀ = (1,0)`, `time_step = 1`), for every LU variant, checked by evaluation -/
theorem exLinearHyps (kind : LUKind) :
    (init kind params 1).iterations = 0 ∧ (beHead ratOps 1 (init kind params 1)).done = false ∧
    1 < params.maxSteps ∧ (init kind params 1).h ≠ 0 ∧
    CellShape 2 0 (init kind params 1).Yn1 ∧ CellShape 2 0 (init kind params 1).sc.f0 ∧
    CellShape (cfg kind).la.A.nnz 0 (init kind params 1).sc.jac ∧
    CellShape (cfg kind).la.Lp.nnz 0 (init kind params 1).sc.lower ∧
    CellShape (cfg kind).la.Up.nnz 0 (init kind params 1).sc.upper ∧
    (∀ i, i < 2 → attPivot (cfg kind) (beFactor (cfg kind) #[#[1]] (init kind params 1)) 0 i ≠ 0) ∧
    (∀ i, i < 2 → rd ((init kind params 1).Yn1.getD 0 #[]) i = rd ((init kind params 1).Yn.getD 0 #[]) i) ∧
    (∀ v, v < 2 → rd ((beNewY ratOps (cfg kind) #[#[1]] (init kind params 1)).getD 0 #[]) v
      = rd ((beUnclipped (cfg kind) #[#[1]] (init kind params 1)).getD 0 #[]) v) := by
  cases kind <;> decide +kernel

/-- so `C08_be_linear` applies to the run; its conclusion for `A = [[−1,0],[1,0]]`, `H = 1`:
    the first iterate `y` has `(I − A) y = (1, 0)`, and the second update is zero -/
theorem exLinear (kind : LUKind) :
    (∀ i, i < 2 → ∑ j ∈ range 2, ((if i = j then 1 else 0) - (init kind params 1).h * exA 1 i j)
      * rd ((beStep ratOps (cfg kind) params #[#[1]] #[1/10, 1/10] (1/10) 1
          (init kind params 1)).Yn1.getD 0 #[]) j = rd ((init kind params 1).Yn.getD 0 #[]) i) ∧
    (∀ v, rd ((beStep ratOps (cfg kind) params #[#[1]] #[1/10, 1/10] (1/10) 1
      (beStep ratOps (cfg kind) params #[#[1]] #[1/10, 1/10] (1/10) 1
        (init kind params 1))).sc.f0.getD 0 #[]) v = 0) := by
  obtain ⟨a1, a2, a3, a4, a5, a6, a7, a8, a9, a10, a11, a12⟩ := exLinearHyps kind
  have hF : ∀ y : Array ℚ, ∀ i, i < 2 →
      rd ((cfg kind).tables.addForcingCell ((#[#[1]] : Mat ℚ).getD 0 #[]) y (Array.replicate 2 0)) i
        = ∑ j ∈ range 2, exA 1 i j * rd y j := fun y i hi => exLinF #[1] y i hi
  have hJ : ∀ y : Array ℚ, ∀ i j, i < 2 → j < 2 →
      negJac nmap procs ((#[#[1]] : Mat ℚ).getD 0 #[]) y i j = - exA 1 i j :=
    fun y i j hi hj => exLinJ #[1] y i j hi hj
  exact C08_be_linear ratOps params #[#[1]] #[1/10, 1/10] (1/10) 1 0 (exBuilt kind) (exA 1)
    (init kind params 1) a1 a2 a3 a4 a5 a6 a7 a8 a9 a10 a11 hF hJ a12

/-- evaluated: `y = (½, ½) = (I − A)⁻¹ (1, 0)` and `δ₂ = 0` -/
example : (iter .doolittle params 1 1).Yn1 = #[#[1/2, 1/2]] ∧
    (iter .doolittle params 1 2).sc.f0 = #[#[0, 0]] := by decide +kernel

end BEEx

#print axioms C08_be_linear_first
#print axioms C08_be_linear_fixed
#print axioms C08_be_linear
#print axioms BEEx.exLinJ
#print axioms BEEx.exLinF
#print axioms BEEx.exLinear

end Micm
