/-
C18 — JIT backend: requests the JIT cannot serve (cell count ≠ vector length) are rejected with the
documented error, never mis-computed.  Decision-logic theorems about the guards as written.
(Equivalence of the generated code with the CPU kernels is established by execution only: see
tools/check.py C18 — JIT vs CPU vs model, bit for bit.)
-/
import Micm.Model.JitGuard
namespace Micm

/-- a JIT solver can be built iff the cell count equals the vector length … -/
theorem C18_guard_build (L cells : Nat) : jitBuild L cells = .ok () ↔ cells = L := by
  unfold jitBuild jitLinearSolverGuard jitLuGuard
  by_cases h : cells > L
  · simp [h, bind, Except.bind]; omega
  · by_cases h2 : cells = L
    · simp [h2, bind, Except.bind, pure, Except.pure]
    · simp [h, h2, bind, Except.bind]

/-- … and otherwise the outcome is exactly `std::system_error(MICM JIT, InvalidMatrix = 1)` -/
theorem C18_guard_error (L cells : Nat) (h : cells ≠ L) : jitBuild L cells = .error (.sys catJit 1) := by
  unfold jitBuild jitLinearSolverGuard jitLuGuard
  by_cases h1 : cells > L
  · simp [h1, bind, Except.bind]
  · simp [h1, h, bind, Except.bind]

/-- no generated function is ever applied to a matrix with another cell count: the per-call guard
    passes iff the block count equals `L` -/
theorem C18_guard_call (L blocks : Nat) : jitAlphaGuard L blocks = .ok () ↔ blocks = L := by
  unfold jitAlphaGuard
  by_cases h : L = blocks
  · simp [h]
  · simp [h]; omega

example : jitBuild 4 4 = .ok () ∧ jitBuild 4 3 = .error (.sys catJit 1) ∧ jitBuild 4 5 = .error (.sys catJit 1) :=
  ⟨(C18_guard_build 4 4).mpr rfl, C18_guard_error 4 3 (by decide), C18_guard_error 4 5 (by decide)⟩

end Micm
#print axioms Micm.C18_guard_build
#print axioms Micm.C18_guard_error
#print axioms Micm.C18_guard_call
