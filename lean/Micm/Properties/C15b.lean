/-
C15 (formulas) — the rate-constant formulas the library evaluates are the documented ones.

`RateKind.calc` is defined by `Micm/Gen/RateFormulas.lean`, which tools/gen_rates.py regenerates on every run from the
bodies of the seven `Calculate` functions, the `Branched` helper `A` and constructor initialisers, and from which
`Conditions` fields each two-argument `Calculate` forwards.  `RateKind.documented` is written by hand from the
documentation.  The theorem holds for EVERY carrier and every interpretation of `exp`, `pow`, `log10`, `sqrt` (it is a
statement about the shape of the expression, including the order of the floating-point operations), hence verbatim for
the `Float` instance that the driver runs and the harness compares bit for bit with the C++.
-/
import Micm.Model.RateConst

namespace Micm

section
variable {α : Type} [OfNat α 0] [OfNat α 1] [Add α] [Sub α] [Mul α] [Div α] [Neg α]

/-- **C15_formulas_documented**: for every rate-constant type, parameters, conditions and custom parameters, the
    value computed by the (generated) source formula is the documented formula -/
theorem C15_formulas_documented (t : TOps α) (pi avogadro : α) (c : Conditions α) (ps : List α) (k : RateKind α) :
    k.calc t pi avogadro c ps = k.documented t pi avogadro c ps := by
  cases k <;> rfl

/-- per type, spelled out (Arrhenius): `A · exp(C/T) · (T/D)^B · (1 + E·P)` -/
theorem C15_arrhenius_formula (t : TOps α) (pi av : α) (c : Conditions α) (ps : List α) (A B C D E : α) :
    (RateKind.arrhenius A B C D E).calc t pi av c ps =
      A * t.exp (C / c.temperature) * t.pow (c.temperature / D) B * (1 + E * c.pressure) := rfl

/-- user-defined: its own custom parameter times its scaling factor -/
theorem C15_userDefined_formula (t : TOps α) (pi av : α) (c : Conditions α) (ps : List α) (l : String) (scale : α) :
    (RateKind.userDefined l scale).calc t pi av c ps = ps.getD 0 0 * scale := rfl

/-- tunneling: `A · exp(−B/T + C/T³)` -/
theorem C15_tunneling_formula (t : TOps α) (pi av : α) (c : Conditions α) (ps : List α) (A B C : α) :
    (RateKind.tunneling A B C).calc t pi av c ps =
      A * t.exp (-B / c.temperature + C / t.pow c.temperature (t.ofInt 3)) := rfl

end
end Micm
