/-
C06 (termination, backward Euler) — `BackwardEuler::Solve` terminates.

The source bounds the Newton iterations of an outer iteration (`max_number_of_steps`) and, implicitly,
the rejected outer iterations (`time_step_reductions.size() + 1`, `C06_be_counters`), but not the accepted
ones.  Over an ordered field, for `0 < time_step`, a first step `0 < h₀ ≤ time_step` (`h₀ = time_step` or
`min(h_start, time_step)` with `h_start > 0`) and reduction factors in `(0, 1]`:

* `accepted ≤ R·(B + 1) + B + 1` where `R = time_step_reductions.size()` and `B` is any natural number with
  `time_step ≤ B · (∏ factors) · h₀` (`C06_be_accepted_bound`);
* hence with more fuel than `(R·(B+1) + B + R + 3) · max(1, max_number_of_steps)` the model never reports
  `outOfFuel` (`C06_be_terminates`), and on an Archimedean field such a bound always exists.

Default parameters (`reductions = ½,½,½,½,⅒`, `h_start = 0`): `B = 160`, at most 971 accepted outer
iterations — attained only by adversarial convergence failures; the point is that the bound is finite and
independent of the mechanism and the state.
-/
import Mathlib.Algebra.Order.Archimedean.Basic
import Micm.Lemmas.BETermination
import Micm.Properties.C06c

namespace Micm
set_option linter.unusedSectionVars false

section BETermination
variable {K : Type} [Field K] [LinearOrder K] [IsStrictOrderedRing K]
variable {o : Ops K} (ho : OrderedOps o) (s : SolverCfg K) (p : BEParams K) (kc : Mat K)
    (atol : Array K) (rtol : K) (T : K)

include ho in
/-- the first step of `beSolve` is positive and at most `time_step` (given `0 < T`, `0 ≤ h_start`) -/
theorem C06_be_initialH_pos (hT : 0 < T) (hs0 : 0 ≤ p.hstart) :
    0 < beInitialH o p T ∧ beInitialH o p T ≤ T := by
  refine ⟨?_, (beInitialH_bounds ho p T hT hs0).2⟩
  rw [beInitialH_eq ho]; split
  · exact hT
  · rename_i h; exact lt_min (lt_of_le_of_ne hs0 (Ne.symm h)) hT

include ho in
/-- the three invariants hold in the state where `beLoop` stops (either `done`, or fuel exhausted in a
    state that differs from a not-`done` invariant state only by the status) -/
theorem beLoop_all_inv (hT : 0 < T) (h0 : K) (hh0 : 0 < h0) (hle0 : h0 ≤ T) (B : Nat)
    (hB : T ≤ (B : K) * (redProd p p.reductions.length * h0)) (hl : RedLegal p)
    (Y : Mat K) (sc : Scratch K) (fuel : Nat) :
    let P := fun r : BEState K => BETimeInv T r ∧ BECtlInv p r ∧ BEAccInv p T h0 B r
    (P (beLoop o s p kc atol rtol T fuel (beInit h0 Y sc)) ∧
      (beLoop o s p kc atol rtol T fuel (beInit h0 Y sc)).done = true) ∨
    (∃ r', P r' ∧ r'.done = false ∧
      beLoop o s p kc atol rtol T fuel (beInit h0 Y sc) = { r' with status := .outOfFuel }) := by
  intro P
  have hred : ∀ x ∈ p.reductions, 0 ≤ x := fun x hx => le_of_lt (hl x hx).1
  exact beLoop_inv' o s p kc atol rtol T P
    (fun r hd h => ⟨BETimeInv_step ho s p kc atol rtol T hred r hd h.1,
      BECtlInv_step o s p kc atol rtol T r hd h.2.1,
      BEAccInv_step ho s p kc atol rtol T hT h0 hh0 hle0 B hB hl r hd h.1 h.2.1 h.2.2⟩)
    fuel _ ⟨BETimeInv_init T hT h0 (le_of_lt hh0) hle0 Y sc, BECtlInv_init p h0 Y sc,
      BEAccInv_init p T hT h0 hh0 hle0 B hB hl Y sc⟩

include ho in
/-- **bound on the accepted outer iterations** (any fuel, any mechanism, any state) -/
theorem C06_be_accepted_bound (hT : 0 < T) (hs0 : 0 ≤ p.hstart) (hl : RedLegal p) (B : Nat)
    (hB : T ≤ (B : K) * (redProd p p.reductions.length * beInitialH o p T))
    (Y : Mat K) (sc : Scratch K) (fuel : Nat) :
    (beSolve o s p kc atol rtol T Y sc fuel).stats.accepted ≤
      p.reductions.length * (B + 1) + B + 1 := by
  obtain ⟨hh0, hle0⟩ := C06_be_initialH_pos ho p T hT hs0
  rw [beSolve_eq]
  simp only []
  rcases beLoop_all_inv ho s p kc atol rtol T hT _ hh0 hle0 B hB hl Y sc fuel with ⟨h, _⟩ | ⟨r', h, _, e⟩
  · exact BEAccInv_bound p T _ B _ h.1 h.2.1 h.2.2
  · rw [e]; exact BEAccInv_bound p T _ B r' h.1 h.2.1 h.2.2

include ho in
/-- **C06_be_terminates**: with more fuel than `(R·(B+1) + B + R + 3)·max(1, max_number_of_steps)` the
    backward-Euler solve never runs out of fuel: its status is `Converged` or
    `AcceptingUnconvergedIntegration` -/
theorem C06_be_terminates (hT : 0 < T) (hs0 : 0 ≤ p.hstart) (hl : RedLegal p) (B : Nat)
    (hB : T ≤ (B : K) * (redProd p p.reductions.length * beInitialH o p T))
    (Y : Mat K) (sc : Scratch K) (fuel : Nat)
    (hfuel : (p.reductions.length * (B + 1) + B + p.reductions.length + 3) * max 1 p.maxSteps < fuel) :
    (beSolve o s p kc atol rtol T Y sc fuel).status = .converged ∨
    (beSolve o s p kc atol rtol T Y sc fuel).status = .acceptingUnconvergedIntegration := by
  obtain ⟨hh0, hle0⟩ := C06_be_initialH_pos ho p T hT hs0
  rw [beSolve_eq]
  simp only []
  rcases beLoop_all_inv ho s p kc atol rtol T hT _ hh0 hle0 B hB hl Y sc fuel with ⟨h, hd⟩ | ⟨r', h, hd', e⟩
  · rcases h.1.fin hd with h4 | ⟨h4, _⟩
    · exact Or.inr h4
    · exact Or.inl h4
  · -- fuel exhausted: every one of the `fuel` iterations recorded a Newton iteration, but the trace is bounded
    exfalso
    have hnd : (beLoop o s p kc atol rtol T fuel (beInit (beInitialH o p T) Y sc)).done = false := by
      rw [e]; exact hd'
    have hlen := beLoop_not_done_trace s p kc atol rtol T fuel _ hnd
    rw [e] at hlen
    simp only [beInit, List.length_nil, Nat.zero_add] at hlen
    have hacc := BEAccInv_bound p T _ B r' h.1 h.2.1 h.2.2
    have hup := h.2.1.upper
    have hrej : r'.stats.rejected ≤ p.reductions.length + 1 := by
      have e1 := h.2.1.rej
      have e2 := h.2.1.nFail
      split at e1 <;> omega
    have hit : r'.iterations ≤ max 1 p.maxSteps := by
      rcases h.2.1.iters with h0 | h0
      · rw [h0]; exact Nat.zero_le _
      · exact le_trans (le_of_lt h0) (le_max_right _ _)
    have h1 : (r'.stats.accepted + r'.stats.rejected) * max 1 p.maxSteps ≤
        (p.reductions.length * (B + 1) + B + 1 + (p.reductions.length + 1)) * max 1 p.maxSteps :=
      Nat.mul_le_mul_right _ (by omega)
    have h2 : (p.reductions.length * (B + 1) + B + p.reductions.length + 3) * max 1 p.maxSteps =
        (p.reductions.length * (B + 1) + B + 1 + (p.reductions.length + 1)) * max 1 p.maxSteps +
          max 1 p.maxSteps := by ring
    omega

include ho in
/-- on an Archimedean field the bound `B` exists: **`BackwardEuler::Solve` terminates** for every
    `0 < time_step`, `0 ≤ h_start` and reduction factors in `(0, 1]` -/
theorem C06_be_terminates_archimedean [Archimedean K] (hT : 0 < T) (hs0 : 0 ≤ p.hstart) (hl : RedLegal p) :
    ∃ F : Nat, ∀ (Y : Mat K) (sc : Scratch K) (fuel : Nat), F < fuel →
      (beSolve o s p kc atol rtol T Y sc fuel).status = .converged ∨
      (beSolve o s p kc atol rtol T Y sc fuel).status = .acceptingUnconvergedIntegration := by
  obtain ⟨hh0, _⟩ := C06_be_initialH_pos ho p T hT hs0
  have hc : 0 < redProd p p.reductions.length * beInitialH o p T :=
    mul_pos (redProd_unit p hl _).1 hh0
  obtain ⟨B, hB⟩ := exists_nat_ge (T / (redProd p p.reductions.length * beInitialH o p T))
  rw [div_le_iff₀ hc] at hB
  exact ⟨_, fun Y sc fuel hf => C06_be_terminates ho s p kc atol rtol T hT hs0 hl B hB Y sc fuel hf⟩

end BETermination

/-! ### the hypotheses hold for the default parameters (`BEEx` of `Lemmas/BackwardEuler.lean`) -/

namespace BEEx

theorem C06_be_default_redLegal : RedLegal params := by
  intro x hx
  simp only [params, List.mem_cons, List.not_mem_nil, or_false] at hx
  rcases hx with rfl | rfl | rfl | rfl | rfl <;> norm_num

/-- default reductions, `time_step = 1`, `h_start = 0`: `∏ factors = 1/160`, `h₀ = 1`, so `B = 160` works -/
theorem C06_be_default_B :
    (1 : ℚ) ≤ ((160 : Nat) : ℚ) * (redProd params params.reductions.length * beInitialH ratOps params 1) := by
  have h1 : beInitialH ratOps params 1 = 1 := by
    rw [beInitialH_eq ratOps_ordered]; simp [params]
  have h2 : redProd params params.reductions.length = 1 / 160 := by
    simp only [redProd, params, List.length_cons, List.length_nil, List.take_succ_cons, List.take_zero,
      List.prod_cons, List.prod_nil]
    norm_num
  rw [h1, h2]; norm_num

/-- the general theorem applied to `A → B` with the default parameters: the run ends, whatever the fuel
    beyond the bound -/
example (kind : LUKind) (fuel : Nat) (hf : (5 * 161 + 160 + 5 + 3) * 11 < fuel) :
    (run kind params 1 fuel).status = .converged ∨
    (run kind params 1 fuel).status = .acceptingUnconvergedIntegration :=
  C06_be_terminates ratOps_ordered (cfg kind) params #[#[1]] #[1/10, 1/10] (1/10) 1 (by norm_num)
    (by simp [params]) C06_be_default_redLegal 160 C06_be_default_B #[#[1, 0]] (scratch kind) fuel
    (by simpa [params] using hf)

end BEEx

end Micm
