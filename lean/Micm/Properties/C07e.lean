/-
C07 / C20 (tolerance indexing) — how `NormalizedError` and `IsConverged` pick the absolute tolerance of a flat
storage element, and why the model's `rd atol v` (species index) is what the source computes **when the tolerance
vector has one entry per species**.

The source does not index by species: it takes `n_vars = absolute_tolerance_.size()` and reads
`atol[i % n_vars]` (row-major: `i = c·n + v`), `atol[(i / L) % n_vars]` (vector layout, whole groups:
`i = g·n·L + v·L + l`) and `atol[v]` (partial group).  For `n_vars = n` (the number of species) all three are
`atol[v]`.  For any other length they are not (known finding KF-C20-1: `SetAbsoluteTolerances` does not check the
length): species are then judged with other species' tolerances.
-/
import Mathlib.Tactic.Ring
import Micm.Model.Rosenbrock

namespace Micm

/-- the tolerance index the source uses for the row-major layout -/
def atolIndexRowMajor (nVars len c v : Nat) : Nat := (c * nVars + v) % len

/-- … and for the whole groups of the vector layout (flat index `g·n·L + v·L + l`, divided by `L`) -/
def atolIndexVector (nVars L len g v l : Nat) : Nat := ((g * nVars * L + v * L + l) / L) % len

/-- with one tolerance per species the row-major index is the species index -/
theorem C07_atol_index_row_major (n c v : Nat) (hv : v < n) : atolIndexRowMajor n n c v = v := by
  unfold atolIndexRowMajor
  rw [Nat.add_comm, Nat.add_mul_mod_self_right, Nat.mod_eq_of_lt hv]

/-- with one tolerance per species the vector-layout index is the species index, for every lane of every group -/
theorem C07_atol_index_vector (n L g v l : Nat) (hv : v < n) (hl : l < L) : atolIndexVector n L n g v l = v := by
  unfold atolIndexVector
  have hL : 0 < L := Nat.lt_of_le_of_lt (Nat.zero_le _) hl
  have h1 : g * n * L + v * L + l = l + (g * n + v) * L := by ring
  rw [h1, Nat.add_mul_div_right _ _ hL, Nat.div_eq_of_lt hl, Nat.zero_add, Nat.add_comm,
    Nat.add_mul_mod_self_right, Nat.mod_eq_of_lt hv]

/-- a tolerance vector of another length misassigns: with 3 species and 2 tolerances, species 0 of the second cell is
    judged with entry 1, species 2 of the first cell with entry 0 (row-major layout) -/
theorem C07_atol_wrong_length_misassigns :
    atolIndexRowMajor 3 2 1 0 = 1 ∧ atolIndexRowMajor 3 2 0 2 = 0 := by decide

end Micm
