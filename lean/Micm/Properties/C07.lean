/-
C07 — step-size control honours the solver parameters (Rosenbrock part).

All statements are about the model definitions `ctlDecide`, `rosStep`, `rosSolve` themselves.
`OrderedOps o` ties the model's comparison record to the order of the field `K` (no NaN/Inf);
`o.pow`, `o.sqrt`, `o.ofNat` stay arbitrary, so `clampFac o p e = min fmax (max fmin (safety / pow e (1/order)))`
is stated with the uninterpreted `pow` — where a property of `pow` is needed it is an explicit hypothesis.
-/
import Micm.Lemmas.RosLoop
import Micm.Gen.Params

namespace Micm
set_option linter.unusedSectionVars false

section Ctl
variable {K : Type} [Field K] [LinearOrder K] [IsStrictOrderedRing K]
variable {o : Ops K} (ho : OrderedOps o) (p : RosParams K) (hm : K) (c : Ctl K) (e : K)

/-- over an ordered field every attempt is accepted or rejected (never the nan/inf exits) -/
theorem C07_decision (ho : OrderedOps o) :
    (ctlDecide o p hm c e).1 = .accept ∨ (ctlDecide o p hm c e).1 = .reject := by
  rw [ho.ctlDecide_fst]; split <;> simp

/-- accepted ⇔ `e < 1 ∨ H < h_min` -/
theorem C07_accept_iff (ho : OrderedOps o) :
    (ctlDecide o p hm c e).1 = .accept ↔ (e < 1 ∨ c.h < p.hmin) :=
  ho.accept_iff p hm c e

/-- rejected ⇔ `1 ≤ e ∧ h_min ≤ H` -/
theorem C07_reject_iff (ho : OrderedOps o) :
    (ctlDecide o p hm c e).1 = .reject ↔ (1 ≤ e ∧ p.hmin ≤ c.h) :=
  ho.reject_iff p hm c e

/-- on acceptance: `t' = t + H`, `H' = max h_min (min (H·clamp) h_max')`, additionally `min … H`
    after a rejected attempt; both flags reset.  `clamp = min fmax (max fmin (safety / pow e (1/order)))`. -/
theorem C07_accept_next (ho : OrderedOps o) (h : (ctlDecide o p hm c e).1 = .accept) :
    (ctlDecide o p hm c e).2 =
      { t := c.t + c.h,
        h := if c.rejectLast
             then min (max p.hmin (min (c.h * min p.fmax (max p.fmin (p.safety / o.pow e (1 / p.order)))) hm)) c.h
             else max p.hmin (min (c.h * min p.fmax (max p.fmin (p.safety / o.pow e (1 / p.order)))) hm),
        rejectLast := false, rejectMore := false } :=
  ho.accept_next p hm c e h

/-- on acceptance with `h_min ≤ h_max'` the new step lies in `[h_min, h_max']`, except that after a
    rejection it may be the (smaller) current `H` -/
theorem C07_accept_bounds (ho : OrderedOps o) (h : (ctlDecide o p hm c e).1 = .accept)
    (hmm : p.hmin ≤ hm) :
    (ctlDecide o p hm c e).2.h ≤ hm ∧
    (c.rejectLast = false → p.hmin ≤ (ctlDecide o p hm c e).2.h) ∧
    (c.rejectLast = true → (ctlDecide o p hm c e).2.h ≤ c.h ∧ min p.hmin c.h ≤ (ctlDecide o p hm c e).2.h) := by
  rw [ho.accept_next p hm c e h]
  have hb : max p.hmin (min (c.h * clampFac o p e) hm) ≤ hm := max_le hmm (min_le_right _ _)
  refine ⟨?_, ?_, ?_⟩
  · simp only; split
    · exact le_trans (min_le_left _ _) hb
    · exact hb
  · intro hr; simp [hr]
  · intro hr; simp only [hr, if_true]
    exact ⟨min_le_right _ _, min_le_min (le_max_left _ _) (le_refl _)⟩

/-- on rejection: `t` unchanged; `H' = H·clamp` on the first and second consecutive rejection,
    `H' = H·rejection_factor_decrease` from the third on; `reject_more' = reject_last`,
    `reject_last' = true` -/
theorem C07_reject_next (ho : OrderedOps o) (h : (ctlDecide o p hm c e).1 = .reject) :
    (ctlDecide o p hm c e).2 =
      { t := c.t,
        h := if c.rejectMore then c.h * p.rejDec
             else c.h * min p.fmax (max p.fmin (p.safety / o.pow e (1 / p.order))),
        rejectLast := true, rejectMore := c.rejectLast } :=
  ho.reject_next p hm c e h

/-- on rejection `H' ≤ H·fmax` always (needs only `0 ≤ H`, `rejDec ≤ fmax`) -/
theorem C07_reject_le (ho : OrderedOps o) (h : (ctlDecide o p hm c e).1 = .reject)
    (hh : 0 ≤ c.h) (hrf : p.rejDec ≤ p.fmax) :
    (ctlDecide o p hm c e).2.h ≤ c.h * p.fmax := by
  rw [ho.reject_next p hm c e h]; simp only; split
  · exact mul_le_mul_of_nonneg_left hrf hh
  · exact mul_le_mul_of_nonneg_left (clampFac_le_fmax o p e) hh

/-- on a first/second consecutive rejection (`¬ reject_more`), `H' < H` **iff** the clamp is `< 1`,
    which for `fmin < 1 ≤ fmax` is **iff** the raw ratio `safety / pow e (1/order)` is `< 1` -/
theorem C07_reject_lt_iff (ho : OrderedOps o) (h : (ctlDecide o p hm c e).1 = .reject)
    (hh : 0 < c.h) (hrm : c.rejectMore = false) (h1 : p.fmin < 1) (h2 : 1 ≤ p.fmax) :
    (ctlDecide o p hm c e).2.h < c.h ↔ p.safety / o.pow e (1 / p.order) < 1 := by
  rw [ho.reject_next p hm c e h, ← clampFac_lt_one_iff o p e h1 h2]
  simp only [hrm, Bool.false_eq_true, if_false]
  exact ⟨fun h => by
      by_contra hc
      exact absurd h (not_lt.mpr (by simpa using mul_le_mul_of_nonneg_left (not_lt.mp hc) (le_of_lt hh))),
    fun h => by simpa using mul_lt_mul_of_pos_left h hh⟩

/-- from the third consecutive rejection on (`reject_more`): `H' = rejDec·H`, and `0 < H' < H` -/
theorem C07_reject_more (ho : OrderedOps o) (h : (ctlDecide o p hm c e).1 = .reject)
    (hh : 0 < c.h) (hrm : c.rejectMore = true) (h1 : 0 < p.rejDec) (h2 : p.rejDec < 1) :
    (ctlDecide o p hm c e).2.h = c.h * p.rejDec ∧
    0 < (ctlDecide o p hm c e).2.h ∧ (ctlDecide o p hm c e).2.h < c.h := by
  rw [ho.reject_next p hm c e h]
  simp only [hrm, if_true, true_and]
  exact ⟨mul_pos hh h1, by simpa using mul_lt_mul_of_pos_left h2 hh⟩

/-- every rejection shrinks the step (`0 < H' < H`) provided `pow` behaves like a power on `[1, ∞)`:
    `1 ≤ x → 1 ≤ pow x (1/order)` (true for the real power with `order > 0`), `fmin < 1 ≤ fmax`,
    `0 < safety < 1`, `0 < rejDec < 1`.  Without the `pow` hypothesis this is false for the model's
    uninterpreted `pow`, which is why it is a hypothesis and not hidden. -/
theorem C07_reject_shrinks (ho : OrderedOps o) (lp : LegalParams p) (hs1 : p.safety < 1)
    (hpow : ∀ x, 1 ≤ x → 1 ≤ o.pow x (1 / p.order))
    (h : (ctlDecide o p hm c e).1 = .reject) (hh : 0 < c.h) :
    0 < (ctlDecide o p hm c e).2.h ∧ (ctlDecide o p hm c e).2.h < c.h := by
  cases hrm : c.rejectMore
  · have he := ((ho.reject_iff p hm c e).mp h).1
    have hp := hpow e he
    have hlt : p.safety / o.pow e (1 / p.order) < 1 := by
      rw [div_lt_one (lt_of_lt_of_le one_pos hp)]; exact lt_of_lt_of_le hs1 hp
    refine ⟨?_, (C07_reject_lt_iff p hm c e ho h hh hrm lp.fmin_lt_one lp.one_le_fmax).mpr hlt⟩
    rw [ho.reject_next p hm c e h]
    simp only [hrm, Bool.false_eq_true, if_false]
    exact mul_pos hh (clampFac_pos o p e lp.fmin_pos
      (le_trans (le_of_lt lp.fmin_lt_one) lp.one_le_fmax))
  · exact (C07_reject_more p hm c e ho h hh hrm lp.rejDec_pos lp.rejDec_lt_one).2

end Ctl

section Solve
variable {K : Type} [Field K] [LinearOrder K] [IsStrictOrderedRing K]
variable {o : Ops K} (cs : Consts K) (s : SolverCfg K) (p : RosParams K) (kc : Mat K)
    (atol : Array K) (rtol : K) (T : K)

/-- **first step**: `rosSolve` runs the loop from `t = 0`, `H = H₀`, with
    `h_max' = (h_max = 0 ? T : min T h_max)`, `h_start' = (h_start = 0 ? max h_min DELTA_MIN : min h_max' h_start)`,
    `H₀ = min (max |h_min| |h_start'|) |h_max'|`, replaced by `DELTA_MIN` when `|H₀| ≤ 10·round_off`. -/
theorem C07_first_step (ho : OrderedOps o) (Y : Mat K) (sc : Scratch K) (fuel : Nat) :
    (rosSolve o cs s p kc atol rtol T Y sc fuel =
      let r := rosLoop o cs s p kc atol rtol T (hmaxEff o p T) fuel (rosInit (initialH o cs p T) Y sc)
      { status := r.status, finalTime := r.ctl.t, stats := r.stats, Y := r.Y, sc := r.sc,
        trace := r.trace.reverse }) ∧
    hmaxEff o p T = (if p.hmax = 0 then T else min T p.hmax) ∧
    hstartEff o cs p T = (if p.hstart = 0 then max p.hmin cs.deltaMin else min (hmaxEff o p T) p.hstart) ∧
    initialH o cs p T =
      (if |min (max |p.hmin| |hstartEff o cs p T|) (|hmaxEff o p T|)| ≤ cs.ten * p.roundOff then cs.deltaMin
       else min (max |p.hmin| |hstartEff o cs p T|) |hmaxEff o p T|) :=
  ⟨rosSolve_eq o cs s p kc atol rtol T Y sc fuel, ho.hmaxEff_eq p T, ho.hstartEff_eq cs p T,
   ho.initialH_eq cs p T⟩

/-- for non-negative parameters and `0 < T` the absolute values disappear: `H₀` is `h_start'`
    clamped into `[h_min, h_max']` (as `min (max h_min h_start') h_max'`), unless substituted -/
theorem C07_first_step_clamp (ho : OrderedOps o) (hT : 0 < T) (hmin : 0 ≤ p.hmin) (hmax : 0 ≤ p.hmax)
    (hstart : 0 ≤ p.hstart)
    (hns : ¬ |min (max p.hmin (hstartEff o cs p T)) (hmaxEff o p T)| ≤ cs.ten * p.roundOff) :
    initialH o cs p T = min (max p.hmin (hstartEff o cs p T)) (hmaxEff o p T) := by
  rw [ho.initialH_eq, ho.rawInitialH_eq_clamp cs p T hT hmin hmax hstart, if_neg hns]

/-- what is true about `H₀ ≤ T`: for `0 < T`, `0 ≤ h_max`, either `H₀ ≤ h_max' ≤ T`, or the
    `DELTA_MIN` substitution fired (`H₀ = DELTA_MIN`, which may exceed `T`; the first attempt is then
    cut to `|T − t|` by `C07_h_le_remaining`).  If `0 ≤ 10·round_off` and `0 < DELTA_MIN`, `H₀ > 0`. -/
theorem C07_first_step_le (ho : OrderedOps o) (hT : 0 < T) (hmax : 0 ≤ p.hmax) :
    (initialH o cs p T ≤ hmaxEff o p T ∧ initialH o cs p T ≤ T) ∨
    (initialH o cs p T = cs.deltaMin ∧ |rawInitialH o cs p T| ≤ cs.ten * p.roundOff) := by
  rw [ho.initialH_eq]; split
  · exact Or.inr ⟨rfl, ‹_›⟩
  · exact Or.inl (ho.rawInitialH_le cs p T hT hmax)

theorem C07_first_step_pos (ho : OrderedOps o) (hro : 0 ≤ cs.ten * p.roundOff) (hd : 0 < cs.deltaMin) :
    0 < initialH o cs p T := by
  rw [ho.initialH_eq]; split
  · exact hd
  · rename_i h
    have h1 := lt_of_le_of_lt hro (not_le.mp h)
    rwa [abs_of_nonneg (rawInitialH_nonneg o cs p T)] at h1

variable (hm : K)

/-- the `H` of an attempt that starts a new step is `min H |T − t|`, hence `≤ |T − t|`; an attempt
    that retries inside a step uses the controller's `H` unchanged -/
theorem C07_h_le_remaining (ho : OrderedOps o) (r : RState K) (hr : r.status = .running)
    (att : Attempt K) (h : (rosStep o cs s p kc atol rtol T hm r).trace = att :: r.trace) :
    (r.inStep = false → att.h = min r.ctl.h |T - r.ctl.t| ∧ att.h ≤ |T - r.ctl.t|) ∧
    (r.inStep = true → att.h = r.ctl.h) := by
  have h1 := rosStep_att_h o cs s p kc atol rtol T hm r hr att h
  rw [ho.cmin_eq, ho.abs] at h1
  constructor
  · intro hi; simp only [hi, Bool.false_eq_true, if_false] at h1
    exact ⟨h1, h1 ▸ min_le_right _ _⟩
  · intro hi; simpa [hi] using h1

end Solve

section MaxSteps
variable {α : Type} [OfNat α 0] [OfNat α 1] [Add α] [Sub α] [Mul α] [Div α]
variable (o : Ops α) (cs : Consts α) (s : SolverCfg α) (p : RosParams α) (kc : Mat α)
    (atol : Array α) (rtol : α) (T hm : α)

/-- no new step is started once `number_of_steps > max_number_of_steps`: the status becomes
    `ConvergenceExceededMaxSteps`, nothing else changes, no attempt is recorded (any carrier) -/
theorem C07_max_steps (r : RState α) (hi : r.inStep = false)
    (ht : o.le (r.ctl.t - T + p.roundOff) 0 = true) (hn : r.stats.numberOfSteps > p.maxSteps) :
    rosStep o cs s p kc atol rtol T hm r = { r with status := .convergenceExceededMaxSteps } ∧
    (rosStep o cs s p kc atol rtol T hm r).trace = r.trace := by
  rw [rosStep_max_steps o cs s p kc atol rtol T hm r hi ht hn]; exact ⟨rfl, rfl⟩

/-- … and the loop stops there -/
theorem C07_max_steps_loop (fuel : Nat) (r : RState α) (hr : r.status = .running) (hi : r.inStep = false)
    (ht : o.le (r.ctl.t - T + p.roundOff) 0 = true) (hn : r.stats.numberOfSteps > p.maxSteps) :
    rosLoop o cs s p kc atol rtol T hm (fuel + 1) r = { r with status := .convergenceExceededMaxSteps } := by
  rw [rosLoop_succ, if_pos hr, rosStep_max_steps o cs s p kc atol rtol T hm r hi ht hn,
    rosLoop_not_running]
  simp

end MaxSteps

/-! ### the hypotheses are satisfiable: an ordered `Ops ℚ`; the generated defaults are legal -/

example : OrderedOps ratOps := ratOps_ordered

/-- `RosenbrockSolverParameters` with the member defaults of the header and the table `t` -/
def defaultParams (t : Gen.RosTable) : RosParams ℚ where
  stages := t.stages
  a := t.a.toArray
  c := t.c.toArray
  m := t.m.toArray
  e := t.e.toArray
  gamma0 := t.gamma.headD 0
  newF := t.newF.toArray
  order := t.order
  roundOff := Gen.default_round_off
  fmin := Gen.default_factor_min
  fmax := Gen.default_factor_max
  rejDec := Gen.default_rejection_factor_decrease
  safety := Gen.default_safety_factor
  hmin := Gen.default_h_min
  hmax := Gen.default_h_max
  hstart := Gen.default_h_start
  maxSteps := Gen.default_max_number_of_steps

def defaultConsts : Consts ℚ :=
  { deltaMin := Gen.lit_delta_min, errorMin := Gen.lit_error_min, tenth := Gen.lit_tenth, ten := Gen.lit_ten }

theorem defaultParams_legal (t : Gen.RosTable) : LegalParams (defaultParams t) := by
  constructor <;>
    simp only [defaultParams, Gen.default_h_min, Gen.default_factor_min, Gen.default_factor_max,
      Gen.default_rejection_factor_decrease, Gen.default_safety_factor] <;> norm_num

example (t : Gen.RosTable) : (defaultParams t).safety < 1 := by
  simp only [defaultParams, Gen.default_safety_factor]; norm_num

/-- `ratOps` (`pow x _ = x`) satisfies the `pow` hypothesis of `C07_reject_shrinks` -/
example (t : Gen.RosTable) : ∀ x : ℚ, 1 ≤ x → 1 ≤ ratOps.pow x (1 / (defaultParams t).order) :=
  fun _ h => h

/-- a concrete rejection: `H = 1000`, error `25`, second consecutive rejection → `H' = 1000·fmin` -/
example :
    let r := ctlDecide ratOps (defaultParams Gen.ros2) 1000 ⟨0, 1000, true, false⟩ 25
    r.1 = .reject ∧ r.2.t = 0 ∧ r.2.h = 1000 * Gen.default_factor_min ∧ r.2.rejectLast = true ∧
      r.2.rejectMore = true := by
  decide +kernel

/-- without `fmin < 1` a rejection need not shrink `H` (`fmin = fmax = 1` keeps `H`) -/
example : (ctlDecide ratOps { defaultParams Gen.ros2 with fmin := 1, fmax := 1 } 1000 ⟨0, 10, false, false⟩ 25).2.h
    = 10 := by
  decide +kernel

/-- the default first step: `h_start = 0`, `h_min = 0` gives `H₀ = DELTA_MIN` (for `T = 1`) -/
example : initialH ratOps defaultConsts (defaultParams Gen.ros2) 1 = Gen.lit_delta_min := by
  decide +kernel

#print axioms C07_decision
#print axioms C07_accept_iff
#print axioms C07_reject_iff
#print axioms C07_accept_next
#print axioms C07_accept_bounds
#print axioms C07_reject_next
#print axioms C07_reject_le
#print axioms C07_reject_lt_iff
#print axioms C07_reject_more
#print axioms C07_reject_shrinks
#print axioms C07_first_step
#print axioms C07_first_step_clamp
#print axioms C07_first_step_le
#print axioms C07_first_step_pos
#print axioms C07_h_le_remaining
#print axioms C07_max_steps
#print axioms C07_max_steps_loop
#print axioms defaultParams_legal

end Micm
