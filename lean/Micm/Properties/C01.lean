/-
C01 — forcing equals the mass-action rate law; nothing else is added, dropped or written elsewhere.

Theorems about the model definitions `reactIdsOf`, `prodIdsOf`, `buildForcing`, `ProcessSet.build`,
`forcingGo`, `PSTables.addForcingCell` of `Micm/Model/ProcessSet.lean`.

Vocabulary (defined in `Micm/Lemmas/Forcing.lean`, `Micm/Lemmas/ForcingField.lean`):
 * `RRxn α := List Nat × List (Nat × α)`: a resolved reaction (reactant ids with repetitions,
   (product id, yield) pairs).
 * `Resolves m procs rxns`: `rxns` are the per-process results of the model's
   `reactIdsOf m p.reactants` / `prodIdsOf m p.products`, all of which succeed, i.e.
   `procs.map (fun p => (reactIdsOf m p.reactants, prodIdsOf m p.products))
      = rxns.map (fun rx => (.ok rx.1, .ok rx.2))`.
 * `reactIdsP`, `prodIdsP`, `resolveP`: closed form of the successful results (`filterMap`: skip
   parameterized species, look the others up).
 * `unknownNames m procs : List PSErr`: the errors of all unknown non-parameterized names in source
   order (processes in order; within a process reactants before products).
 * `rxnStep y f k rx`: single-reaction update (rate := left fold `k * y[r₁] * y[r₂] …`; subtract the
   rate once per reactant occurrence; add `yield * rate` per product).
-/
import Micm.Lemmas.ForcingField
import Mathlib.Algebra.Field.Rat

namespace Micm

/-! ### 1. the constructor tables -/
section Tables
variable {α : Type}

/-- If the first constructor loop succeeds, every per-process resolution succeeds and the flat
    streams are exactly the concatenations of the per-process resolved lists (the Jacobian streams
    are still empty). -/
theorem C01_tables_decode (m : NameMap) (procs : List (Process α)) (t : PSTables α)
    (h : buildForcing m procs = .ok t) :
    ∃ rxns : List (RRxn α), Resolves m procs rxns ∧
      t.nReact = rxns.map (·.1.length) ∧
      t.reactIds = (rxns.map (·.1)).flatten ∧
      t.nProd = rxns.map (·.2.length) ∧
      t.prodIds = (rxns.map (·.2.map (·.1))).flatten ∧
      t.yields = (rxns.map (·.2.map (·.2))).flatten ∧
      t.jInfo = [] ∧ t.jReactIds = [] ∧ t.jProdIds = [] ∧ t.jYields = [] := by
  obtain ⟨rxns, hr, rfl⟩ := (buildForcing_ok_iff m procs t).1 h
  exact ⟨rxns, hr, rfl, rfl, rfl, rfl, rfl, rfl, rfl, rfl, rfl⟩

/-- Exact characterisation of success (`tablesOf rxns` is the record with the five streams above). -/
theorem C01_tables_decode_iff (m : NameMap) (procs : List (Process α)) (t : PSTables α) :
    buildForcing m procs = .ok t ↔ ∃ rxns, Resolves m procs rxns ∧ t = tablesOf rxns :=
  buildForcing_ok_iff m procs t

/-- The resolved lists in closed form: resolution succeeds iff there is no unknown
    non-parameterized name, and then each reaction is the `filterMap` of its process. -/
theorem C01_resolves_iff (m : NameMap) (procs : List (Process α)) (rxns : List (RRxn α)) :
    Resolves m procs rxns ↔ unknownNames m procs = [] ∧ rxns = procs.map (resolveP m) :=
  resolves_iff m procs rxns

/-- Error behaviour: `buildForcing` fails iff some process has an unknown non-parameterized
    reactant/product name, and the error is the one of the first such name in source order. -/
theorem C01_build_error_iff (m : NameMap) (procs : List (Process α)) (e : PSErr) :
    buildForcing m procs = .error e ↔ (unknownNames m procs).head? = some e :=
  buildForcing_error_iff m procs e

theorem C01_build_ok_iff (m : NameMap) (procs : List (Process α)) :
    (∃ t, buildForcing m procs = .ok t) ↔
      ∀ p ∈ procs, (∀ r ∈ p.reactants, r.param = false → (nmLookup m r.name).isSome = true) ∧
                   (∀ q ∈ p.products, q.1.param = false → (nmLookup m q.1.name).isSome = true) := by
  rw [buildForcing_isOk_iff, unknownNames_eq_nil_iff]
  simp only [unknownReactants_eq_nil_iff, unknownProducts_eq_nil_iff]

/-- The same for a single reactant list / product list (the two resolvers). -/
theorem C01_reactIdsOf_iff (m : NameMap) (l : List SpecRef) :
    (∀ ids, reactIdsOf m l = .ok ids ↔ unknownReactants m l = [] ∧ ids = reactIdsP m l) ∧
    (∀ e, reactIdsOf m l = .error e ↔ (unknownReactants m l).head? = some e) :=
  ⟨reactIdsOf_ok_iff m l, reactIdsOf_error_iff m l⟩

theorem C01_prodIdsOf_iff (m : NameMap) (l : List (SpecRef × α)) :
    (∀ ids, prodIdsOf m l = .ok ids ↔ unknownProducts m l = [] ∧ ids = prodIdsP m l) ∧
    (∀ e, prodIdsOf m l = .error e ↔ (unknownProducts m l).head? = some e) :=
  ⟨prodIdsOf_ok_iff m l, prodIdsOf_error_iff m l⟩

/-- `ProcessSet.build` only extends the record of `buildForcing` with the Jacobian streams: same
    forcing streams, same errors, succeeds exactly when `buildForcing` does. -/
theorem C01_build_extends (m : NameMap) (procs : List (Process α)) :
    (∀ t, ProcessSet.build procs m = .ok t →
      ∃ t0, buildForcing m procs = .ok t0 ∧ t.nReact = t0.nReact ∧ t.reactIds = t0.reactIds ∧
        t.nProd = t0.nProd ∧ t.prodIds = t0.prodIds ∧ t.yields = t0.yields) ∧
    (∀ e, ProcessSet.build procs m = .error e ↔ buildForcing m procs = .error e) ∧
    ((∃ t, ProcessSet.build procs m = .ok t) ↔ ∃ t0, buildForcing m procs = .ok t0) :=
  ⟨fun _ h => ProcessSet.build_ok_forcing_fields h, ProcessSet.build_error_iff m procs, ProcessSet.build_isOk_iff m procs⟩

end Tables

/-! ### 2. the cursors never desynchronise -/
section Decode
variable {α : Type} [OfNat α 0] [Add α] [Sub α] [Mul α]

/-- On streams that are concatenations of per-reaction lists, the cursor-driven kernel is the fold
    of the single-reaction update over the reactions paired with their rate constants (for every
    mechanism; it stops at the shorter of the reaction list and the rate-constant list). -/
theorem C01_forcingGo_decode (y : Array α) (rxns : List (RRxn α)) (ks : List α) (f : Array α) :
    forcingGo y (rxns.map (·.1.length)) (rxns.map (·.2.length)) (rxns.map (·.1)).flatten
      (rxns.map (·.2.map (·.1))).flatten (rxns.map (·.2.map (·.2))).flatten ks f
    = (rxns.zip ks).foldl (fun f rk => rxnStep y f rk.2 rk.1) f :=
  forcingGo_decode y rxns ks f

/-- The same for the tables produced by either constructor entry point. -/
theorem C01_addForcingCell_decode (m : NameMap) (procs : List (Process α)) (t : PSTables α)
    (rxns : List (RRxn α)) (h : buildForcing m procs = .ok t ∨ ProcessSet.build procs m = .ok t)
    (hr : Resolves m procs rxns) (k y f : Array α) :
    t.addForcingCell k y f = (rxns.zip k.toList).foldl (fun f rk => rxnStep y f rk.2 rk.1) f := by
  cases h with
  | inl h => exact buildForcing_ok_addForcingCell h hr k y f
  | inr h => exact ProcessSet.build_ok_addForcingCell h hr k y f

omit [OfNat α 0] [Add α] [Sub α] [Mul α] in
/-- With one rate constant per process no reaction and no rate constant is dropped by the `zip`. -/
theorem C01_zip_complete (m : NameMap) (procs : List (Process α)) (rxns : List (RRxn α))
    (hr : Resolves m procs rxns) (k : Array α) (hk : k.size = procs.length) :
    (rxns.zip k.toList).map (·.1) = rxns ∧ (rxns.zip k.toList).map (·.2) = k.toList :=
  forcing_zip_complete hr k.toList (by simpa using hk)

end Decode

/-! ### 3. mass action -/
section MassAction
variable {K : Type} [Field K]

/-- Mass-action law for the forcing tables.  For every in-range species index `i`,
    `f'[i] = f[i] + Σ_r (Σ yields of products of r with id i − #occurrences of i among the reactants of r)
                      · k_r · Π_{j ∈ reactants of r} y[j]`,
    the reactions being those resolved by `reactIdsOf`/`prodIdsOf` (parameterized species skipped)
    and `k_r` the `r`-th rate constant (`C01_zip_complete`).
    No range hypothesis on the ids is needed: an out-of-range write is dropped by the model and an
    in-range `i` never equals an out-of-range id (`C01_bounds` shows ids are in range). -/
theorem C01_forcing_mass_action (m : NameMap) (procs : List (Process K)) (t : PSTables K)
    (rxns : List (RRxn K)) (h : buildForcing m procs = .ok t ∨ ProcessSet.build procs m = .ok t)
    (hr : Resolves m procs rxns) (k y f : Array K) (i : Nat) (hi : i < f.size) :
    rd (t.addForcingCell k y f) i
      = rd f i + ((rxns.zip k.toList).map fun rk =>
          (((rk.1.2.filter (fun p => p.1 = i)).map (·.2)).sum - (rk.1.1.count i : K))
            * (rk.2 * (rk.1.1.map (rd y)).prod)).sum := by
  rw [C01_addForcingCell_decode m procs t rxns h hr]
  exact rd_forcingSpec y rxns k.toList f i hi

/-- The statement with the reactions in closed form (no `Resolves` hypothesis). -/
theorem C01_forcing_mass_action' (m : NameMap) (procs : List (Process K)) (t : PSTables K)
    (h : buildForcing m procs = .ok t ∨ ProcessSet.build procs m = .ok t)
    (k y f : Array K) (i : Nat) (hi : i < f.size) :
    rd (t.addForcingCell k y f) i
      = rd f i + ((procs.zip k.toList).map fun pk =>
          ((((prodIdsP m pk.1.products).filter (fun p => p.1 = i)).map (·.2)).sum
              - ((reactIdsP m pk.1.reactants).count i : K))
            * (pk.2 * ((reactIdsP m pk.1.reactants).map (rd y)).prod)).sum := by
  have hu : unknownNames m procs = [] := by
    cases h with
    | inl h => exact (buildForcing_isOk_iff m procs).1 ⟨t, h⟩
    | inr h => exact (buildForcing_isOk_iff m procs).1 ((ProcessSet.build_isOk_iff m procs).1 ⟨t, h⟩)
  have hr : Resolves m procs (procs.map (resolveP m)) := (resolves_iff m procs _).2 ⟨hu, rfl⟩
  rw [C01_forcing_mass_action m procs t _ h hr k y f i hi, List.zip_map_left, List.map_map]
  rfl

end MassAction

/-! ### 4. frame -/
section Frame
variable {α : Type} [OfNat α 0] [Add α] [Sub α] [Mul α]

/-- The forcing vector keeps its size (any tables, any carrier). -/
theorem C01_frame_size (t : PSTables α) (k y f : Array α) : (t.addForcingCell k y f).size = f.size :=
  forcingGo_size y _ _ _ _ _ _ f

/-- An index that is neither a reactant id nor a product id in the tables is not written
    (any tables, any carrier). -/
theorem C01_frame (t : PSTables α) (k y f : Array α) (i : Nat)
    (hr : i ∉ t.reactIds) (hp : i ∉ t.prodIds) : rd (t.addForcingCell k y f) i = rd f i :=
  forcingGo_rd_of_not_mem y _ _ _ _ _ _ f i hr hp

/-- For built tables: an index that is not a reactant or product id of any resolved reaction is
    unchanged. -/
theorem C01_frame_built (m : NameMap) (procs : List (Process α)) (t : PSTables α) (rxns : List (RRxn α))
    (h : buildForcing m procs = .ok t ∨ ProcessSet.build procs m = .ok t) (hr : Resolves m procs rxns)
    (k y f : Array α) (i : Nat) (hi : ∀ rx ∈ rxns, i ∉ rx.1 ∧ ∀ p ∈ rx.2, p.1 ≠ i) :
    rd (t.addForcingCell k y f) i = rd f i := by
  have key : ∀ t0 : PSTables α, buildForcing m procs = .ok t0 → rd (t0.addForcingCell k y f) i = rd f i := by
    intro t0 h0
    obtain ⟨rxns', hr', rfl⟩ := (buildForcing_ok_iff m procs t0).1 h0
    have e : rxns' = rxns := by
      rw [((resolves_iff m procs rxns').1 hr').2, ((resolves_iff m procs rxns).1 hr).2]
    subst e
    apply C01_frame
    · rw [tablesOf_reactIds_mem]
      rintro ⟨rx, hrx, hj⟩
      exact (hi rx hrx).1 hj
    · rw [tablesOf_prodIds_mem]
      rintro ⟨rx, hrx, p, hp, hj⟩
      exact (hi rx hrx).2 p hp hj
  cases h with
  | inl h => exact key t h
  | inr h =>
    obtain ⟨t0, h0, h1, h2, h3, h4, h5⟩ := ProcessSet.build_ok_forcing_fields h
    rw [addForcingCell_congr t t0 h1 h2 h3 h4 h5]
    exact key t0 h0

end Frame

/-! ### 5. bounds -/
section Bounds
variable {α : Type}

/-- If every value of the name map is `< n`, every id in the forcing tables is `< n` (so with
    `f.size = y.size = n` every address read or written by `addForcingCell` is in range). -/
theorem C01_bounds (m : NameMap) (procs : List (Process α)) (t : PSTables α) (n : Nat)
    (hm : ∀ e ∈ m, e.2 < n) (h : buildForcing m procs = .ok t ∨ ProcessSet.build procs m = .ok t) :
    (∀ j ∈ t.reactIds, j < n) ∧ (∀ j ∈ t.prodIds, j < n) := by
  have key : ∀ t0 : PSTables α, buildForcing m procs = .ok t0 →
      (∀ j ∈ t0.reactIds, j < n) ∧ (∀ j ∈ t0.prodIds, j < n) := by
    intro t0 h0
    obtain ⟨rxns, hr, rfl⟩ := (buildForcing_ok_iff m procs t0).1 h0
    have hb := resolves_bounds hm hr
    constructor
    · intro j hj
      obtain ⟨rx, hrx, hj⟩ := tablesOf_reactIds_mem.1 hj
      exact (hb rx hrx).1 j hj
    · intro j hj
      obtain ⟨rx, hrx, p, hp, rfl⟩ := tablesOf_prodIds_mem.1 hj
      exact (hb rx hrx).2 p hp
  cases h with
  | inl h => exact key t h
  | inr h =>
    obtain ⟨t0, h0, -, h2, -, h4, -⟩ := ProcessSet.build_ok_forcing_fields h
    rw [h2, h4]
    exact key t0 h0

/-- The same bound, per resolved reaction. -/
theorem C01_bounds_resolved (m : NameMap) (procs : List (Process α)) (rxns : List (RRxn α)) (n : Nat)
    (hm : ∀ e ∈ m, e.2 < n) (hr : Resolves m procs rxns) :
    ∀ rx ∈ rxns, (∀ j ∈ rx.1, j < n) ∧ ∀ p ∈ rx.2, p.1 < n :=
  resolves_bounds hm hr

end Bounds

/-! ### examples: the hypotheses are satisfiable on a concrete mechanism

`s0 → 0.8 s1 + 0.2 s2 ;  s0 + s1 (+ M, parameterized) → s2 ;  s1 + s1 + s0 → s1`
with name map `s0 ↦ 0, s1 ↦ 1, s2 ↦ 2`, at `Rat`. -/
namespace C01Ex

def exMap : NameMap := [("s0", 0), ("s1", 1), ("s2", 2)]

def exProcs : List (Process Rat) :=
  [ { reactants := [⟨"s0", false⟩],
      products := [(⟨"s1", false⟩, 4/5), (⟨"s2", false⟩, 1/5)] },
    { reactants := [⟨"s0", false⟩, ⟨"s1", false⟩, ⟨"M", true⟩],
      products := [(⟨"s2", false⟩, 1)] },
    { reactants := [⟨"s1", false⟩, ⟨"s1", false⟩, ⟨"s0", false⟩],
      products := [(⟨"s1", false⟩, 1)] } ]

def exRxns : List (RRxn Rat) :=
  [ ([0], [(1, 4/5), (2, 1/5)]), ([0, 1], [(2, 1)]), ([1, 1, 0], [(1, 1)]) ]

theorem exResolves : Resolves exMap exProcs exRxns := by unfold Resolves; rfl

theorem exBuildForcing : buildForcing exMap exProcs = .ok (tablesOf exRxns) :=
  (C01_tables_decode_iff _ _ _).2 ⟨exRxns, exResolves, rfl⟩

/-- the streams of the example, written out -/
example : buildForcing exMap exProcs = .ok
    { nReact := [1, 2, 3], reactIds := [0, 0, 1, 1, 1, 0],
      nProd := [2, 1, 1], prodIds := [1, 2, 2, 1], yields := [4/5, 1/5, 1, 1] } := exBuildForcing

theorem exBuild : ∃ t, ProcessSet.build exProcs exMap = .ok t :=
  (C01_build_extends exMap exProcs).2.2.2 ⟨_, exBuildForcing⟩

/-- `C01_forcing_mass_action` on the example: all hypotheses hold, the conclusion in closed form
    for species `s1` (index 1): `f'₁ = f₁ + 0.8·k₀·y₀ − k₁·y₀·y₁ + (1 − 2)·k₂·y₁·y₁·y₀`. -/
example (t : PSTables Rat) (h : ProcessSet.build exProcs exMap = .ok t) (k0 k1 k2 y0 y1 y2 f0 f1 f2 : Rat) :
    rd (t.addForcingCell #[k0, k1, k2] #[y0, y1, y2] #[f0, f1, f2]) 1
      = f1 + 4/5 * k0 * y0 - k1 * y0 * y1 - k2 * y1 * y1 * y0 := by
  rw [C01_forcing_mass_action exMap exProcs t exRxns (.inr h) exResolves _ _ _ 1 (by simp)]
  simp [exRxns, rd]
  ring

example : ∀ e ∈ exMap, e.2 < 3 := by decide

/-- an unknown product name is reported; the unknown reactant of the later process is not reached -/
example : buildForcing exMap
    [ { reactants := [⟨"s0", false⟩], products := [(⟨"zz", false⟩, (1 : Rat))] },
      { reactants := [⟨"yy", false⟩], products := [] } ] = .error (.productDoesNotExist "zz") := by
  rw [C01_build_error_iff]; rfl

end C01Ex

end Micm

#print axioms Micm.C01_tables_decode
#print axioms Micm.C01_tables_decode_iff
#print axioms Micm.C01_resolves_iff
#print axioms Micm.C01_build_error_iff
#print axioms Micm.C01_build_ok_iff
#print axioms Micm.C01_reactIdsOf_iff
#print axioms Micm.C01_prodIdsOf_iff
#print axioms Micm.C01_build_extends
#print axioms Micm.C01_forcingGo_decode
#print axioms Micm.C01_addForcingCell_decode
#print axioms Micm.C01_zip_complete
#print axioms Micm.C01_forcing_mass_action
#print axioms Micm.C01_forcing_mass_action'
#print axioms Micm.C01_frame_size
#print axioms Micm.C01_frame
#print axioms Micm.C01_frame_built
#print axioms Micm.C01_bounds
#print axioms Micm.C01_bounds_resolved
