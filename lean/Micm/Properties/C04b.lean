import Micm.Lemmas.MixedOrders
import Mathlib.Algebra.Field.Rat

/-!
C04 (continued) — `Factor; Solve` when the lower and the upper matrix use their own storage orders
(`LinAlg.buildMixed kind jac cscL cscU`, see C03b): for every Jacobian pattern with a full diagonal
(needed for Mozart only), every pair of orders, every prior contents `l0`, `u0` of the `L`/`U`
storage and every right-hand side `b` of the block size, `solveCell la.fw la.bw` applied to the
arrays computed by the decomposition kernel overwrites `b` with `x` such that `A x = b`
(`C04_mixed_solve`), and `x` is the same array for all four order combinations and equal to the
one obtained with `LinAlg.build` (`C04_mixed_indep_of_orders`, `C04_mixed_eq_build_*`).
The statements are per cell: a cell's result is a function of that cell's `a` and `b` only.
-/
open Finset
namespace Micm
variable {K : Type} [Field K]

/-- C04 (mixed orders): `A · x = b` on the block, `x = Solve(Factor(a), b)`. -/
theorem C04_mixed_solve (kind : LUKind) (jac : Pattern) (cscL cscU : Bool)
    (hdiag : kind = .mozart → ∀ i, i < jac.n → jac.zero? i i = false) (a l0 u0 b : Array K) :
    let la := LinAlg.buildMixed kind jac cscL cscU
    let LU := match kind with
      | .mozart => mozartCell la.mInit la.mRows a (l0, u0)
      | _ => doolittleCell la.dRows a (l0, u0)
    l0.size = la.Lp.nnz → u0.size = la.Up.nnz → b.size = jac.n →
    (∀ i, i < jac.n → view la.Up LU.2 i i ≠ 0) →
    ∀ i, i < jac.n →
      ∑ j ∈ range jac.n, view jac a i j * rd (solveCell la.fw la.bw LU.1 LU.2 b) j = rd b i := by
  intro la LU hLs hUs hb hpiv
  exact buildMixed_solve kind jac cscL cscU hdiag a l0 u0 b hLs hUs hb hpiv

/-- the kernels written out: Doolittle (no hypothesis on the pattern) -/
theorem C04_mixed_doolittle (jac : Pattern) (cscL cscU : Bool) (a l0 u0 b : Array K)
    (hLs : l0.size = (LinAlg.buildMixed .doolittle jac cscL cscU).Lp.nnz)
    (hUs : u0.size = (LinAlg.buildMixed .doolittle jac cscL cscU).Up.nnz) (hb : b.size = jac.n)
    (hpiv : ∀ i, i < jac.n → view (LinAlg.buildMixed .doolittle jac cscL cscU).Up
      (doolittleCell (LinAlg.buildMixed .doolittle jac cscL cscU).dRows a (l0, u0)).2 i i ≠ 0) :
    ∀ i, i < jac.n →
      ∑ j ∈ range jac.n, view jac a i j *
        rd (solveCell (LinAlg.buildMixed .doolittle jac cscL cscU).fw
          (LinAlg.buildMixed .doolittle jac cscL cscU).bw
          (doolittleCell (LinAlg.buildMixed .doolittle jac cscL cscU).dRows a (l0, u0)).1
          (doolittleCell (LinAlg.buildMixed .doolittle jac cscL cscU).dRows a (l0, u0)).2 b) j
        = rd b i :=
  buildMixed_solve .doolittle jac cscL cscU (fun h => by cases h) a l0 u0 b hLs hUs hb hpiv

/-- Mozart -/
theorem C04_mixed_mozart (jac : Pattern) (cscL cscU : Bool)
    (hdiag : ∀ i, i < jac.n → jac.zero? i i = false) (a l0 u0 b : Array K)
    (hLs : l0.size = (LinAlg.buildMixed .mozart jac cscL cscU).Lp.nnz)
    (hUs : u0.size = (LinAlg.buildMixed .mozart jac cscL cscU).Up.nnz) (hb : b.size = jac.n)
    (hpiv : ∀ i, i < jac.n → view (LinAlg.buildMixed .mozart jac cscL cscU).Up
      (mozartCell (LinAlg.buildMixed .mozart jac cscL cscU).mInit
        (LinAlg.buildMixed .mozart jac cscL cscU).mRows a (l0, u0)).2 i i ≠ 0) :
    ∀ i, i < jac.n →
      ∑ j ∈ range jac.n, view jac a i j *
        rd (solveCell (LinAlg.buildMixed .mozart jac cscL cscU).fw
          (LinAlg.buildMixed .mozart jac cscL cscU).bw
          (mozartCell (LinAlg.buildMixed .mozart jac cscL cscU).mInit
            (LinAlg.buildMixed .mozart jac cscL cscU).mRows a (l0, u0)).1
          (mozartCell (LinAlg.buildMixed .mozart jac cscL cscU).mInit
            (LinAlg.buildMixed .mozart jac cscL cscU).mRows a (l0, u0)).2 b) j
        = rd b i :=
  buildMixed_solve .mozart jac cscL cscU (fun _ => hdiag) a l0 u0 b hLs hUs hb hpiv

/-- C04 (mixed orders): the solution array is the same whatever orders `L` and `U` are stored in
    and whatever their storage held before `Factor` (exact arithmetic; no pivot hypothesis). -/
theorem C04_mixed_indep_of_orders (kind : LUKind) (jac : Pattern) (cscL cscU cscL' cscU' : Bool)
    (hdiag : kind = .mozart → ∀ i, i < jac.n → jac.zero? i i = false)
    (a l0 u0 l0' u0' b : Array K) :
    let la := LinAlg.buildMixed kind jac cscL cscU
    let la' := LinAlg.buildMixed kind jac cscL' cscU'
    let LU := match kind with
      | .mozart => mozartCell la.mInit la.mRows a (l0, u0)
      | _ => doolittleCell la.dRows a (l0, u0)
    let LU' := match kind with
      | .mozart => mozartCell la'.mInit la'.mRows a (l0', u0')
      | _ => doolittleCell la'.dRows a (l0', u0')
    l0.size = la.Lp.nnz → u0.size = la.Up.nnz → l0'.size = la'.Lp.nnz → u0'.size = la'.Up.nnz →
    b.size = jac.n →
    solveCell la.fw la.bw LU.1 LU.2 b = solveCell la'.fw la'.bw LU'.1 LU'.2 b := by
  intro la la' LU LU' hLs hUs hLs' hUs' hb
  exact buildMixed_solve_indep kind jac cscL cscU cscL' cscU' hdiag a l0 u0 l0' u0' b
    hLs hUs hLs' hUs' hb

/-- … and it is the solution computed with the tables of `LinAlg.build` (Doolittle) -/
theorem C04_mixed_eq_build_doolittle (jac : Pattern) (cscL cscU : Bool)
    (a l0 u0 l0' u0' b : Array K)
    (hLs : l0.size = (LinAlg.buildMixed .doolittle jac cscL cscU).Lp.nnz)
    (hUs : u0.size = (LinAlg.buildMixed .doolittle jac cscL cscU).Up.nnz)
    (hLs' : l0'.size = (LinAlg.build .doolittle jac).Lp.nnz)
    (hUs' : u0'.size = (LinAlg.build .doolittle jac).Up.nnz) (hb : b.size = jac.n) :
    solveCell (LinAlg.buildMixed .doolittle jac cscL cscU).fw
        (LinAlg.buildMixed .doolittle jac cscL cscU).bw
        (doolittleCell (LinAlg.buildMixed .doolittle jac cscL cscU).dRows a (l0, u0)).1
        (doolittleCell (LinAlg.buildMixed .doolittle jac cscL cscU).dRows a (l0, u0)).2 b
      = solveCell (LinAlg.build .doolittle jac).fw (LinAlg.build .doolittle jac).bw
        (doolittleCell (LinAlg.build .doolittle jac).dRows a (l0', u0')).1
        (doolittleCell (LinAlg.build .doolittle jac).dRows a (l0', u0')).2 b :=
  buildMixed_solve_indep .doolittle jac cscL cscU jac.csc jac.csc (fun h => by cases h)
    a l0 u0 l0' u0' b hLs hUs hLs' hUs' hb

/-- (Mozart) -/
theorem C04_mixed_eq_build_mozart (jac : Pattern) (cscL cscU : Bool)
    (hdiag : ∀ i, i < jac.n → jac.zero? i i = false) (a l0 u0 l0' u0' b : Array K)
    (hLs : l0.size = (LinAlg.buildMixed .mozart jac cscL cscU).Lp.nnz)
    (hUs : u0.size = (LinAlg.buildMixed .mozart jac cscL cscU).Up.nnz)
    (hLs' : l0'.size = (LinAlg.build .mozart jac).Lp.nnz)
    (hUs' : u0'.size = (LinAlg.build .mozart jac).Up.nnz) (hb : b.size = jac.n) :
    solveCell (LinAlg.buildMixed .mozart jac cscL cscU).fw
        (LinAlg.buildMixed .mozart jac cscL cscU).bw
        (mozartCell (LinAlg.buildMixed .mozart jac cscL cscU).mInit
          (LinAlg.buildMixed .mozart jac cscL cscU).mRows a (l0, u0)).1
        (mozartCell (LinAlg.buildMixed .mozart jac cscL cscU).mInit
          (LinAlg.buildMixed .mozart jac cscL cscU).mRows a (l0, u0)).2 b
      = solveCell (LinAlg.build .mozart jac).fw (LinAlg.build .mozart jac).bw
        (mozartCell (LinAlg.build .mozart jac).mInit (LinAlg.build .mozart jac).mRows a
          (l0', u0')).1
        (mozartCell (LinAlg.build .mozart jac).mInit (LinAlg.build .mozart jac).mRows a
          (l0', u0')).2 b :=
  buildMixed_solve_indep .mozart jac cscL cscU jac.csc jac.csc (fun _ => hdiag)
    a l0 u0 l0' u0' b hLs hUs hLs' hUs' hb

/-- the general fact behind order independence: `solveCell` on the tables `solverRows Lp Up` only
    depends on the logical matrices its `L`/`U` arguments hold (diagonals present), not on how
    they are laid out -/
theorem C04_solveCell_views (Lp Up Lp' Up' : Pattern) (L U L' U' x : Array K) (n : Nat)
    (hn : Lp.n = n) (hn' : Lp'.n = n) (hx : x.size = n)
    (hLd : ∀ i, i < n → Lp.zero? i i = false) (hLd' : ∀ i, i < n → Lp'.zero? i i = false)
    (hUd : ∀ i, i < n → Up.zero? i i = false) (hUd' : ∀ i, i < n → Up'.zero? i i = false)
    (hL : ∀ i j, i < n → j < n → view Lp L i j = view Lp' L' i j)
    (hU : ∀ i j, i < n → j < n → view Up U i j = view Up' U' i j) :
    solveCell (solverRows Lp Up).1 (solverRows Lp Up).2 L U x
      = solveCell (solverRows Lp' Up').1 (solverRows Lp' Up').2 L' U' x :=
  solveCell_congr_views Lp Up Lp' Up' L U L' U' x n hn hn' hx hLd hLd' hUd hUd' hL hU

/-! ### a concrete instance (the one of C03b): `A` in CSR, `L` in CSC, `U` in CSR and vice versa -/

def c04bA : Pattern := Pattern.mk' 3 false 0 [(0,0),(0,1),(0,2),(1,0),(1,1),(2,0),(2,2)]

/-- all hypotheses of `C04_mixed_solve` hold: A = [[2,1,1],[4,3,0],[6,0,7]], b = (4, 7, 13) -/
example :
    let la := LinAlg.buildMixed .doolittle c04bA true false
    let a : Array ℚ := #[2, 1, 1, 4, 3, 6, 7]
    let LU := doolittleCell la.dRows a (#[9,9,9,9,9,9], #[8,8,8,8,8,8])
    (∀ i, i < c04bA.n → c04bA.zero? i i = false) ∧
    (#[9,9,9,9,9,9] : Array ℚ).size = la.Lp.nnz ∧ (#[8,8,8,8,8,8] : Array ℚ).size = la.Up.nnz ∧
    (#[4, 7, 13] : Array ℚ).size = c04bA.n ∧
    ∀ i, i < c04bA.n → view la.Up LU.2 i i ≠ 0 := by decide +kernel

/-- and the solver returns x = (1, 1, 1) for both mixed configurations and both algorithms -/
example :
    let la := LinAlg.buildMixed .doolittle c04bA true false
    let a : Array ℚ := #[2, 1, 1, 4, 3, 6, 7]
    let LU := doolittleCell la.dRows a (#[9,9,9,9,9,9], #[8,8,8,8,8,8])
    solveCell la.fw la.bw LU.1 LU.2 #[4, 7, 13] = #[1, 1, 1] := by decide +kernel

example :
    let la := LinAlg.buildMixed .doolittle c04bA false true
    let a : Array ℚ := #[2, 1, 1, 4, 3, 6, 7]
    let LU := doolittleCell la.dRows a (#[9,9,9,9,9,9], #[8,8,8,8,8,8])
    solveCell la.fw la.bw LU.1 LU.2 #[4, 7, 13] = #[1, 1, 1] := by decide +kernel

example :
    let la := LinAlg.buildMixed .mozart c04bA true false
    let a : Array ℚ := #[2, 1, 1, 4, 3, 6, 7]
    let LU := mozartCell la.mInit la.mRows a (#[5,5,5,5,5,5], #[4,4,4,4,4,4])
    solveCell la.fw la.bw LU.1 LU.2 #[4, 7, 13] = #[1, 1, 1] := by decide +kernel

end Micm

#print axioms Micm.C04_mixed_solve
#print axioms Micm.C04_mixed_doolittle
#print axioms Micm.C04_mixed_mozart
#print axioms Micm.C04_mixed_indep_of_orders
#print axioms Micm.C04_mixed_eq_build_doolittle
#print axioms Micm.C04_mixed_eq_build_mozart
#print axioms Micm.C04_solveCell_views
