/-
C13 (second part) — grid cells are independent; any cell count works:
Jacobian, Doolittle LU decomposition and linear solve on flat storage.

Theorems about the flat-storage kernels of `Micm/Model/FlatKernels2.lean`
(`PSTables.subtractJacobianFlat`, `doolittleFlat`, `solveFlat`: the loops of `SubtractJacobianTerms`,
`LuDecompositionDoolittle::Decompose`, `LinearSolver::Solve` for the standard layout `L = 0` — one
cell / block after the other — and for the vector layouts `L ≥ 1` — groups of `L` lanes; Jacobian and
solve run all `L` lanes of every group, padding included, the LU runs `min L (blocks - g*L)` lanes)
and the per-cell kernels `PSTables.subtractJacobianCell` (`ProcessSet.lean`), `doolittleCell`,
`solveCell` (`LU.lean`) — the ones C03 / C04 / C05 speak of.

Storage conventions (definitions in `Micm/Lemmas/Lanes2.lean`, restated by the `example`s below):
 * `slot L nnz b k`  — slot of element rank `k` of block `b` of a sparse block matrix with `nnz`
   elements per block; this is `Pattern.slot` (C19) as a function of `L`, `nnz` (`slot_pattern`);
 * `vectorSize L nnz blocks` — its storage size (`Pattern.vectorSize`, `vectorSize_pattern`);
 * `sparseRow L nnz data b` — logical block `b` (the `nnz` values at `slot L nnz b 0 …`);
 * dense matrices: `DenseShape.addr`, `flatRow` as in `C13.lean`;
 * `DRow.InRange r nnzA nnzL nnzU`, `SubRow.InRange r nnz n`: every element rank of a table row is
   inside its pattern (a rank `≥ nnz` — e.g. the sentinel of `Pattern.rk` — would address another
   lane / group); `doolittleRows`, `solverRows` use a rank only for present elements.

Everything is parametric in the element type: only the notation classes, no algebraic law, so every
statement holds verbatim for `Float` (bit for bit).

Hypotheses of the lane theorems: the *written* array has the container's size (the model drops
out-of-range writes), table ids / ranks are in range.  No size hypothesis on arrays that are only
read.  The Jacobian cursor walk needs NO list-length condition: the flat and the per-cell kernel walk
the same streams (`jReactIds`, `jYields`, `flat`) with the same cursors and both index the rate
constants by `info.pid` (unlike the forcing kernel, whose per-cell form consumes a list of rate
constants); the only requirement is `info.pid < nRxn`.  The solve needs `fw.length ≤ n` (forward row
index `0, 1, …` stays a column of `x`) and `bw.length ≤ n` (only used to exclude `n = 0` with a
non-empty backward table; the backward index starts at `n - 1 = x.size - 1` and saturates at 0);
`solverRows` gives `fw.length = bw.length = n`.

Proofs: `Micm/Lemmas/Lanes2.lean` (on top of `Lanes.lean`, `DenseAddr.lean`).
-/
import Micm.Lemmas.Lanes2
namespace Micm

/-! ### the storage conventions, unfolded -/

example (L nnz b k : Nat) :
    slot L nnz b k = if L = 0 then k + b * nnz else k * L + b % L + (b / L) * L * nnz := rfl
example (L nnz blocks : Nat) :
    vectorSize L nnz blocks = if L = 0 then blocks * nnz else ((blocks + L - 1) / L) * L * nnz := rfl
example (p : Pattern) (b k : Nat) : p.slot b k = slot p.L p.nnz b k := rfl
example (p : Pattern) (blocks : Nat) : p.vectorSize blocks = vectorSize p.L p.nnz blocks := rfl
example {α : Type} [OfNat α 0] (L nnz : Nat) (data : Array α) (b : Nat) :
    sparseRow L nnz data b = ((List.range nnz).map fun k => rd data (slot L nnz b k)).toArray := rfl
example (r : DRow) (nnzA nnzL nnzU : Nat) :
    r.InRange nnzA nnzL nnzU ↔
      (∀ e ∈ r.u, (∀ a, e.a = some a → a < nnzA) ∧ e.t < nnzU ∧ ∀ p ∈ e.pairs, p.1 < nnzL ∧ p.2 < nnzU) ∧
      r.lii < nnzL ∧
      (∀ e ∈ r.l, (∀ a, e.a = some a → a < nnzA) ∧ e.t < nnzL ∧ ∀ p ∈ e.pairs, p.1 < nnzL ∧ p.2 < nnzU) ∧
      r.uii < nnzU := Iff.rfl
example (r : SubRow) (nnz n : Nat) :
    r.InRange nnz n ↔ r.diag < nnz ∧ ∀ p ∈ r.pairs, p.1 < nnz ∧ p.2 < n := Iff.rfl

/-- slots of real blocks are in range and pairwise distinct (C19 for the explicit `slot`) -/
theorem C13_slot_lt {L nnz blocks b k : Nat} (hb : b < blocks) (hk : k < nnz) :
    slot L nnz b k < vectorSize L nnz blocks := slot_lt' hb hk

/-- the kernels' address of (group `b / L`, element rank `k`, lane `b % L`) — resp. of (block `b`,
    rank `k`) with one lane of stride 1 for the standard layout — is the container's slot (C19) -/
theorem C13_kernel_slot (L nnz b k : Nat) :
    (L = 0 → slot L nnz b k = b * nnz + k * 1 + 0) ∧
    (L ≠ 0 → slot L nnz b k = b / L * (L * nnz) + k * L + b % L) :=
  ⟨fun hL => by subst hL; exact congrFun (slot_row nnz b) k, fun hL => congrFun (slot_vec L nnz b hL) k⟩

/-- **Bounds.**  Every address the flat kernels form in a sparse block array is inside its storage:
    standard layout, block `b < blocks`; vector layout, group `g < ⌈blocks / L⌉`, lane `l < L`
    (a fortiori `l < min L (blocks - g*L)`); element ranks `k < nnz`.  (Dense arrays: `C13_bounds`.) -/
theorem C13_sparse_bounds (L nnz blocks : Nat) :
    (∀ b k, b < blocks → k < nnz → b * nnz + k * 1 + 0 < vectorSize 0 nnz blocks) ∧
    (L ≠ 0 → ∀ g k l, g < (blocks + L - 1) / L → k < nnz → l < L →
      g * (L * nnz) + k * L + l < vectorSize L nnz blocks) :=
  ⟨fun b k hb hk => by
      have := row_addr_lt (nCells := blocks) (n := nnz) hb hk
      simp only [DenseShape.size, vectorSize, if_true] at this ⊢
      omega,
    fun hL _ _ _ hg hk hl => vec_addr_lt (nCells := blocks) (n := nnz) hL hg hk hl⟩

/-! ### 1. Jacobian -/
section Jacobian
variable {α : Type} [OfNat α 0] [Add α] [Sub α] [Mul α]

/-- **Lane theorem, Jacobian.**  Both layouts (`L = 0`, every `L ≥ 1`), every cell count (also
    `nCells < L`, `nCells % L ≠ 0`), every real cell `c < nCells`: logical block `c` of the flat
    kernel's result is the per-cell kernel applied to logical row `c` of the rate constants and of
    the state and to logical block `c` of the incoming Jacobian. -/
theorem C13_jacobian_flat_eq_cell (t : PSTables α) (flat : List Nat) (L nCells nRxn nSpecies nnz : Nat)
    (K Y J : Array α) (hJ : J.size = vectorSize L nnz nCells)
    (hjr : ∀ i ∈ t.jReactIds, i < nSpecies) (hpid : ∀ info ∈ t.jInfo, info.pid < nRxn)
    (hflat : ∀ f ∈ flat, f < nnz) (c : Nat) (hc : c < nCells) :
    sparseRow L nnz (t.subtractJacobianFlat flat L nCells nRxn nSpecies nnz K Y J) c
      = t.subtractJacobianCell flat (flatRow ⟨nCells, nRxn, L⟩ K c) (flatRow ⟨nCells, nSpecies, L⟩ Y c)
          (sparseRow L nnz J c) := by
  unfold PSTables.subtractJacobianFlat
  by_cases hL : L = 0
  · subst hL
    rw [if_pos rfl]
    exact subtractJacobianFlatRow_cell t flat nCells nRxn nSpecies nnz K Y J hJ hjr hpid hflat c hc
  · rw [if_neg hL]
    exact subtractJacobianFlatVec_cell t flat L nCells nRxn nSpecies nnz hL K Y J hJ hjr hpid hflat c hc

/-- element form: the slot of (cell `c`, element rank `k`) holds entry `k` of the per-cell result -/
theorem C13_jacobian_flat_slot (t : PSTables α) (flat : List Nat) (L nCells nRxn nSpecies nnz : Nat)
    (K Y J : Array α) (hJ : J.size = vectorSize L nnz nCells)
    (hjr : ∀ i ∈ t.jReactIds, i < nSpecies) (hpid : ∀ info ∈ t.jInfo, info.pid < nRxn)
    (hflat : ∀ f ∈ flat, f < nnz) (c k : Nat) (hc : c < nCells) (hk : k < nnz) :
    rd (t.subtractJacobianFlat flat L nCells nRxn nSpecies nnz K Y J) (slot L nnz c k)
      = rd (t.subtractJacobianCell flat (flatRow ⟨nCells, nRxn, L⟩ K c) (flatRow ⟨nCells, nSpecies, L⟩ Y c)
          (sparseRow L nnz J c)) k := by
  rw [← C13_jacobian_flat_eq_cell t flat L nCells nRxn nSpecies nnz K Y J hJ hjr hpid hflat c hc,
    rd_sparseRow L nnz _ c k hk]

/-- **Cell independence, Jacobian.**  Two runs — different cell counts, positions of the cell,
    layouts — whose inputs agree on the cell's logical rows / block agree on the cell's block of the
    result: other cells, their number and order, padding lanes and the group length never matter. -/
theorem C13_jacobian_cell_independence (t : PSTables α) (flat : List Nat) (nRxn nSpecies nnz : Nat)
    (L nCells : Nat) (K Y J : Array α) (L' nCells' : Nat) (K' Y' J' : Array α)
    (hJ : J.size = vectorSize L nnz nCells) (hJ' : J'.size = vectorSize L' nnz nCells')
    (hjr : ∀ i ∈ t.jReactIds, i < nSpecies) (hpid : ∀ info ∈ t.jInfo, info.pid < nRxn)
    (hflat : ∀ f ∈ flat, f < nnz) (c c' : Nat) (hc : c < nCells) (hc' : c' < nCells')
    (hKrow : flatRow ⟨nCells, nRxn, L⟩ K c = flatRow ⟨nCells', nRxn, L'⟩ K' c')
    (hYrow : flatRow ⟨nCells, nSpecies, L⟩ Y c = flatRow ⟨nCells', nSpecies, L'⟩ Y' c')
    (hJrow : sparseRow L nnz J c = sparseRow L' nnz J' c') :
    sparseRow L nnz (t.subtractJacobianFlat flat L nCells nRxn nSpecies nnz K Y J) c
      = sparseRow L' nnz (t.subtractJacobianFlat flat L' nCells' nRxn nSpecies nnz K' Y' J') c' := by
  rw [C13_jacobian_flat_eq_cell t flat L nCells nRxn nSpecies nnz K Y J hJ hjr hpid hflat c hc,
    C13_jacobian_flat_eq_cell t flat L' nCells' nRxn nSpecies nnz K' Y' J' hJ' hjr hpid hflat c' hc',
    hKrow, hYrow, hJrow]

/-- the Jacobian kernel keeps the storage size (padding lanes *are* written, from padding inputs;
    by cell independence those values never reach a real cell) -/
theorem C13_jacobian_size (t : PSTables α) (flat : List Nat) (L nCells nRxn nSpecies nnz : Nat)
    (K Y J : Array α) : (t.subtractJacobianFlat flat L nCells nRxn nSpecies nnz K Y J).size = J.size :=
  subtractJacobianFlat_size t flat L nCells nRxn nSpecies nnz K Y J

end Jacobian

/-! ### 2. Doolittle LU -/
section LU
variable {α : Type} [OfNat α 0] [OfNat α 1] [Sub α] [Mul α] [Div α]

/-- **Lane theorem, LU.**  Both layouts, every block count, every real block `b < blocks`: logical
    block `b` of the flat `(L, U)` result is `doolittleCell` on logical block `b` of `A`, `L`, `U`. -/
theorem C13_doolittle_flat_eq_cell (L blocks : Nat) (rows : List DRow) (nnzA nnzL nnzU : Nat)
    (hrows : ∀ r ∈ rows, r.InRange nnzA nnzL nnzU) (A Lo Up : Array α)
    (hLo : Lo.size = vectorSize L nnzL blocks) (hUp : Up.size = vectorSize L nnzU blocks)
    (b : Nat) (hb : b < blocks) :
    (sparseRow L nnzL (doolittleFlat L blocks rows nnzA nnzL nnzU A (Lo, Up)).1 b,
     sparseRow L nnzU (doolittleFlat L blocks rows nnzA nnzL nnzU A (Lo, Up)).2 b)
      = doolittleCell rows (sparseRow L nnzA A b) (sparseRow L nnzL Lo b, sparseRow L nnzU Up b) := by
  obtain ⟨hL, hU⟩ := doolittleFlat_views L blocks rows nnzA nnzL nnzU hrows A Lo Up hLo hUp b hb
  exact Prod.ext hL.sparseRow_eq hU.sparseRow_eq

/-- **Padding lanes are not touched by the LU** (the vector kernel runs `min L (blocks - g*L)`
    lanes): the sizes are kept and every slot that is not the slot of an element of a real block
    keeps its content. -/
theorem C13_doolittle_padding_untouched (L blocks : Nat) (rows : List DRow) (nnzA nnzL nnzU : Nat)
    (hrows : ∀ r ∈ rows, r.InRange nnzA nnzL nnzU) (A Lo Up : Array α) :
    ((doolittleFlat L blocks rows nnzA nnzL nnzU A (Lo, Up)).1.size = Lo.size ∧
      ∀ x, (∀ b k, b < blocks → k < nnzL → slot L nnzL b k ≠ x) →
        rd (doolittleFlat L blocks rows nnzA nnzL nnzU A (Lo, Up)).1 x = rd Lo x) ∧
    ((doolittleFlat L blocks rows nnzA nnzL nnzU A (Lo, Up)).2.size = Up.size ∧
      ∀ x, (∀ b k, b < blocks → k < nnzU → slot L nnzU b k ≠ x) →
        rd (doolittleFlat L blocks rows nnzA nnzL nnzU A (Lo, Up)).2 x = rd Up x) :=
  doolittleFlat_frame L blocks rows nnzA nnzL nnzU hrows A (Lo, Up)

/-- in particular the slots of the padding blocks `blocks ≤ b < ⌈blocks/L⌉·L` keep their content -/
theorem C13_doolittle_padding_block (L blocks : Nat) (rows : List DRow) (nnzA nnzL nnzU : Nat)
    (hrows : ∀ r ∈ rows, r.InRange nnzA nnzL nnzU) (A Lo Up : Array α) (b : Nat) (hb : blocks ≤ b) :
    sparseRow L nnzL (doolittleFlat L blocks rows nnzA nnzL nnzU A (Lo, Up)).1 b = sparseRow L nnzL Lo b ∧
    sparseRow L nnzU (doolittleFlat L blocks rows nnzA nnzL nnzU A (Lo, Up)).2 b = sparseRow L nnzU Up b := by
  obtain ⟨⟨_, fL⟩, ⟨_, fU⟩⟩ := doolittleFlat_frame L blocks rows nnzA nnzL nnzU hrows A (Lo, Up)
  constructor
  · unfold sparseRow
    congr 1
    refine List.map_congr_left (fun k hk => fL _ (fun b' k' hb' hk' e => ?_))
    have := (slot_inj' hk' (List.mem_range.1 hk) e).1
    omega
  · unfold sparseRow
    congr 1
    refine List.map_congr_left (fun k hk => fU _ (fun b' k' hb' hk' e => ?_))
    have := (slot_inj' hk' (List.mem_range.1 hk) e).1
    omega

/-- **Block independence, LU.** -/
theorem C13_lu_cell_independence (rows : List DRow) (nnzA nnzL nnzU : Nat)
    (hrows : ∀ r ∈ rows, r.InRange nnzA nnzL nnzU)
    (L blocks : Nat) (A Lo Up : Array α) (L' blocks' : Nat) (A' Lo' Up' : Array α)
    (hLo : Lo.size = vectorSize L nnzL blocks) (hUp : Up.size = vectorSize L nnzU blocks)
    (hLo' : Lo'.size = vectorSize L' nnzL blocks') (hUp' : Up'.size = vectorSize L' nnzU blocks')
    (b b' : Nat) (hb : b < blocks) (hb' : b' < blocks')
    (hArow : sparseRow L nnzA A b = sparseRow L' nnzA A' b')
    (hLrow : sparseRow L nnzL Lo b = sparseRow L' nnzL Lo' b')
    (hUrow : sparseRow L nnzU Up b = sparseRow L' nnzU Up' b') :
    sparseRow L nnzL (doolittleFlat L blocks rows nnzA nnzL nnzU A (Lo, Up)).1 b
      = sparseRow L' nnzL (doolittleFlat L' blocks' rows nnzA nnzL nnzU A' (Lo', Up')).1 b' ∧
    sparseRow L nnzU (doolittleFlat L blocks rows nnzA nnzL nnzU A (Lo, Up)).2 b
      = sparseRow L' nnzU (doolittleFlat L' blocks' rows nnzA nnzL nnzU A' (Lo', Up')).2 b' := by
  have h1 := C13_doolittle_flat_eq_cell L blocks rows nnzA nnzL nnzU hrows A Lo Up hLo hUp b hb
  have h2 := C13_doolittle_flat_eq_cell L' blocks' rows nnzA nnzL nnzU hrows A' Lo' Up' hLo' hUp' b' hb'
  rw [hArow, hLrow, hUrow, ← h2] at h1
  exact ⟨congrArg Prod.fst h1, congrArg Prod.snd h1⟩

end LU

/-! ### 3. linear solve -/
section Solve
variable {α : Type} [OfNat α 0] [Sub α] [Mul α] [Div α]

/-- **Lane theorem, solve.**  Both layouts, every cell count, every real cell: logical row `c` of the
    flat solve is `solveCell` on logical blocks `c` of `L`, `U` and logical row `c` of `x`. -/
theorem C13_solve_flat_eq_cell (L nCells n : Nat) (fw bw : List SubRow) (nnzL nnzU : Nat)
    (hfw : ∀ r ∈ fw, r.InRange nnzL n) (hbw : ∀ r ∈ bw, r.InRange nnzU n)
    (hfwl : fw.length ≤ n) (hbwl : bw.length ≤ n) (Lo Up x : Array α)
    (hx : x.size = (DenseShape.mk nCells n L).size) (c : Nat) (hc : c < nCells) :
    flatRow ⟨nCells, n, L⟩ (solveFlat L nCells n fw bw nnzL nnzU Lo Up x) c
      = solveCell fw bw (sparseRow L nnzL Lo c) (sparseRow L nnzU Up c) (flatRow ⟨nCells, n, L⟩ x c) :=
  solveFlat_cell L nCells n fw bw nnzL nnzU hfw hbw hfwl hbwl Lo Up x hx c hc

/-- the same with the source's shape `fw.length = bw.length = n` (`solverRows`) -/
theorem C13_solve_flat_eq_cell' (L nCells n : Nat) (fw bw : List SubRow) (nnzL nnzU : Nat)
    (hfw : ∀ r ∈ fw, r.InRange nnzL n) (hbw : ∀ r ∈ bw, r.InRange nnzU n)
    (hfwl : fw.length = n) (hbwl : bw.length = n) (Lo Up x : Array α)
    (hx : x.size = (DenseShape.mk nCells n L).size) (c : Nat) (hc : c < nCells) :
    flatRow ⟨nCells, n, L⟩ (solveFlat L nCells n fw bw nnzL nnzU Lo Up x) c
      = solveCell fw bw (sparseRow L nnzL Lo c) (sparseRow L nnzU Up c) (flatRow ⟨nCells, n, L⟩ x c) :=
  solveFlat_cell L nCells n fw bw nnzL nnzU hfw hbw (by omega) (by omega) Lo Up x hx c hc

/-- **Cell independence, solve.** -/
theorem C13_solve_cell_independence (n : Nat) (fw bw : List SubRow) (nnzL nnzU : Nat)
    (hfw : ∀ r ∈ fw, r.InRange nnzL n) (hbw : ∀ r ∈ bw, r.InRange nnzU n)
    (hfwl : fw.length ≤ n) (hbwl : bw.length ≤ n)
    (L nCells : Nat) (Lo Up x : Array α) (L' nCells' : Nat) (Lo' Up' x' : Array α)
    (hx : x.size = (DenseShape.mk nCells n L).size) (hx' : x'.size = (DenseShape.mk nCells' n L').size)
    (c c' : Nat) (hc : c < nCells) (hc' : c' < nCells')
    (hLrow : sparseRow L nnzL Lo c = sparseRow L' nnzL Lo' c')
    (hUrow : sparseRow L nnzU Up c = sparseRow L' nnzU Up' c')
    (hxrow : flatRow ⟨nCells, n, L⟩ x c = flatRow ⟨nCells', n, L'⟩ x' c') :
    flatRow ⟨nCells, n, L⟩ (solveFlat L nCells n fw bw nnzL nnzU Lo Up x) c
      = flatRow ⟨nCells', n, L'⟩ (solveFlat L' nCells' n fw bw nnzL nnzU Lo' Up' x') c' := by
  rw [C13_solve_flat_eq_cell L nCells n fw bw nnzL nnzU hfw hbw hfwl hbwl Lo Up x hx c hc,
    C13_solve_flat_eq_cell L' nCells' n fw bw nnzL nnzU hfw hbw hfwl hbwl Lo' Up' x' hx' c' hc',
    hLrow, hUrow, hxrow]

/-- the solve keeps the storage size (padding lanes are written, from padding inputs) -/
theorem C13_solve_size (L nCells n : Nat) (fw bw : List SubRow) (hfwl : fw.length ≤ n) (hbwl : bw.length ≤ n)
    (nnzL nnzU : Nat) (Lo Up x : Array α) :
    (solveFlat L nCells n fw bw nnzL nnzU Lo Up x).size = x.size :=
  solveFlat_size L nCells n fw bw hfwl hbwl nnzL nnzU Lo Up x

end Solve

/-! ### instances: `L = 3`, 4 cells / blocks (one full group + a partial group with two padding lanes) -/
namespace C13bEx

/-! #### Jacobian: 3 species, 2 reactions, 4 elements per block; three `ProcessInfo` entries
(0, 1 and 1 dependents; 1, 1 and 2 products) -/

def exFlat : List Nat := [0, 2,  1, 0, 3,  2, 3, 0, 1]

/-- at `Float`: the lane theorem applies as it stands -/
def exTJ : PSTables Float :=
  { jInfo := [⟨0, 0, 0, 1⟩, ⟨1, 0, 1, 1⟩, ⟨1, 1, 1, 2⟩], jReactIds := [1, 0], jYields := [0.5, 1.0, 1.0, 3.0] }

example : vectorSize 3 4 4 = 24 := by decide

example (K Y J : Array Float) (hJ : J.size = 24) (c : Nat) (hc : c < 4) :
    sparseRow 3 4 (exTJ.subtractJacobianFlat exFlat 3 4 2 3 4 K Y J) c
      = exTJ.subtractJacobianCell exFlat (flatRow ⟨4, 2, 3⟩ K c) (flatRow ⟨4, 3, 3⟩ Y c) (sparseRow 3 4 J c) :=
  C13_jacobian_flat_eq_cell exTJ exFlat 3 4 2 3 4 K Y J (by rw [hJ]; decide) (by decide) (by decide)
    (by decide) c hc

/-- vector `L = 3` with 4 cells against standard layout with 2 cells: cell 3 of the first run and
    cell 0 of the second get the same Jacobian block when their rows / blocks agree -/
example (K Y J K' Y' J' : Array Float) (hJ : J.size = 24) (hJ' : J'.size = 8)
    (hK : flatRow ⟨4, 2, 3⟩ K 3 = flatRow ⟨2, 2, 0⟩ K' 0)
    (hY : flatRow ⟨4, 3, 3⟩ Y 3 = flatRow ⟨2, 3, 0⟩ Y' 0)
    (hJr : sparseRow 3 4 J 3 = sparseRow 0 4 J' 0) :
    sparseRow 3 4 (exTJ.subtractJacobianFlat exFlat 3 4 2 3 4 K Y J) 3
      = sparseRow 0 4 (exTJ.subtractJacobianFlat exFlat 0 2 2 3 4 K' Y' J') 0 :=
  C13_jacobian_cell_independence exTJ exFlat 2 3 4 3 4 K Y J 0 2 K' Y' J' (by rw [hJ]; decide)
    (by rw [hJ']; decide) (by decide) (by decide) (by decide) 3 0 (by decide) (by decide) hK hY hJr

/-- the same tables at `Int` (yields `2, 1, 1, 3`), evaluated -/
def exTJI : PSTables Int :=
  { jInfo := [⟨0, 0, 0, 1⟩, ⟨1, 0, 1, 1⟩, ⟨1, 1, 1, 2⟩], jReactIds := [1, 0], jYields := [2, 1, 1, 3] }
/-- rate constants (2 groups x 2 reactions x 3 lanes): cell `c` has `k = (c + 1, 2)`, padding `7` -/
def exK : Array Int := #[1, 2, 3, 2, 2, 2,   4, 7, 7, 2, 7, 7]
/-- state (2 x 3 x 3): cell `c` has `y = (c + 1, 2, 1)`, padding `9` -/
def exY : Array Int := #[1, 2, 3, 2, 2, 2, 1, 1, 1,   4, 9, 9, 2, 9, 9, 1, 9, 9]
def exJ : Array Int := Array.replicate 24 0

/-- the padding lanes (slots 13, 14, 16, 17, 19, 20, …) are written, from the padding inputs -/
example : exTJI.subtractJacobianFlat exFlat 3 4 2 3 4 exK exY exJ
    = #[3, 2, 1, -2, -8, -14, 0, 0, 0, -2, 0, 2,   0, 7, 7, -20, -126, -126, 0, 49, 49, 4, 0, 0] := by
  decide +kernel

/-- the real cell in the partial group: both sides of the lane theorem, evaluated -/
example : sparseRow 3 4 (exTJI.subtractJacobianFlat exFlat 3 4 2 3 4 exK exY exJ) 3 = #[0, -20, 0, 4] := by
  decide +kernel
example : exTJI.subtractJacobianCell exFlat (flatRow ⟨4, 2, 3⟩ exK 3) (flatRow ⟨4, 3, 3⟩ exY 3)
    (sparseRow 3 4 exJ 3) = #[0, -20, 0, 4] := by
  decide +kernel

/-! #### LU and solve: the tables the model's builder produces for the 3x3 pattern
`{(0,0),(0,1),(1,0),(1,1),(2,1),(2,2)}` (no fill-in: `nnzA = 6`, `nnzL = 5`, `nnzU = 4`) -/

def exLA : LinAlg := LinAlg.build .doolittle (Pattern.mk' 3 false 3 [(0, 0), (0, 1), (1, 0), (1, 1), (2, 1), (2, 2)])

example : (exLA.A.nnz, exLA.Lp.nnz, exLA.Up.nnz) = (6, 5, 4) := by decide +kernel
/-- the built tables satisfy the range hypotheses of the lane theorems -/
theorem exRows_inRange : ∀ r ∈ exLA.dRows, r.InRange 6 5 4 := by decide +kernel
theorem exFw_inRange : ∀ r ∈ exLA.fw, r.InRange 5 3 := by decide +kernel
theorem exBw_inRange : ∀ r ∈ exLA.bw, r.InRange 4 3 := by decide +kernel
example : exLA.fw.length = 3 ∧ exLA.bw.length = 3 := by decide +kernel

example : vectorSize 3 6 4 = 36 ∧ vectorSize 3 5 4 = 30 ∧ vectorSize 3 4 4 = 24 := by decide

/-- at `Float` -/
example (A Lo Up : Array Float) (hLo : Lo.size = 30) (hUp : Up.size = 24) (b : Nat) (hb : b < 4) :
    (sparseRow 3 5 (doolittleFlat 3 4 exLA.dRows 6 5 4 A (Lo, Up)).1 b,
     sparseRow 3 4 (doolittleFlat 3 4 exLA.dRows 6 5 4 A (Lo, Up)).2 b)
      = doolittleCell exLA.dRows (sparseRow 3 6 A b) (sparseRow 3 5 Lo b, sparseRow 3 4 Up b) :=
  C13_doolittle_flat_eq_cell 3 4 exLA.dRows 6 5 4 exRows_inRange A Lo Up (by rw [hLo]; decide)
    (by rw [hUp]; decide) b hb

example (Lo Up x : Array Float) (hx : x.size = 18) (c : Nat) (hc : c < 4) :
    flatRow ⟨4, 3, 3⟩ (solveFlat 3 4 3 exLA.fw exLA.bw 5 4 Lo Up x) c
      = solveCell exLA.fw exLA.bw (sparseRow 3 5 Lo c) (sparseRow 3 4 Up c) (flatRow ⟨4, 3, 3⟩ x c) :=
  C13_solve_flat_eq_cell 3 4 3 exLA.fw exLA.bw 5 4 exFw_inRange exBw_inRange (by decide +kernel)
    (by decide +kernel) Lo Up x (by rw [hx]; decide) c hc

/-- at `Rat`, evaluated.  Block `b` of `A` is `[[2, 1, 0], [b + 1, 3, 0], [0, 1, 4]]`; padding `7` -/
def exA : Array Rat :=
  #[2, 2, 2, 1, 1, 1, 1, 2, 3, 3, 3, 3, 1, 1, 1, 4, 4, 4,   2, 7, 7, 1, 7, 7, 4, 7, 7, 3, 7, 7, 1, 7, 7, 4, 7, 7]
def exLo : Array Rat := Array.replicate 30 5
def exUp : Array Rat := Array.replicate 24 6
def exLo' : Array Rat :=
  #[1, 1, 1, 1/2, 1, 3/2, 1, 1, 1, 2/5, 1/2, 2/3, 1, 1, 1,   1, 5, 5, 2, 5, 5, 1, 5, 5, 1, 5, 5, 1, 5, 5]
def exUp' : Array Rat :=
  #[2, 2, 2, 1, 1, 1, 5/2, 2, 3/2, 4, 4, 4,   2, 6, 6, 1, 6, 6, 1, 6, 6, 4, 6, 6]

/-- the padding lanes (lanes 1, 2 of group 1) keep their old content `5` / `6` -/
example : doolittleFlat 3 4 exLA.dRows 6 5 4 exA (exLo, exUp) = (exLo', exUp') := by decide +kernel

example : doolittleCell exLA.dRows (sparseRow 3 6 exA 3) (sparseRow 3 5 exLo 3, sparseRow 3 4 exUp 3)
    = (#[1, 2, 1, 1, 1], #[2, 1, 1, 4]) := by decide +kernel
example : (sparseRow 3 5 exLo' 3, sparseRow 3 4 exUp' 3) = ((#[1, 2, 1, 1, 1], #[2, 1, 1, 4]) : Array Rat × Array Rat) := by
  decide +kernel

/-- right-hand sides (2 x 3 x 3): cell `c` has `x = (c + 1, 2, 3)`, padding `1` -/
def exX : Array Rat := #[1, 2, 3, 2, 2, 2, 3, 3, 3,   4, 1, 1, 2, 1, 1, 3, 1, 1]

/-- padding lanes are written (`1/30`, `0`) from the padding inputs -/
example : solveFlat 3 4 3 exLA.fw exLA.bw 5 4 exLo' exUp' exX
    = #[1/5, 1, 7/3, 3/5, 0, -5/3, 3/5, 3/4, 7/6,   5, 1/30, 1/30, -6, 0, 0, 9/4, 1/30, 1/30] := by
  decide +kernel
example : flatRow ⟨4, 3, 3⟩ (solveFlat 3 4 3 exLA.fw exLA.bw 5 4 exLo' exUp' exX) 3 = #[5, -6, 9/4] := by
  decide +kernel
example : solveCell exLA.fw exLA.bw (sparseRow 3 5 exLo' 3) (sparseRow 3 4 exUp' 3) (flatRow ⟨4, 3, 3⟩ exX 3)
    = #[5, -6, 9/4] := by
  decide +kernel

end C13bEx

end Micm

#print axioms Micm.C13_slot_lt
#print axioms Micm.C13_kernel_slot
#print axioms Micm.C13_sparse_bounds
#print axioms Micm.C13_jacobian_flat_eq_cell
#print axioms Micm.C13_jacobian_flat_slot
#print axioms Micm.C13_jacobian_cell_independence
#print axioms Micm.C13_jacobian_size
#print axioms Micm.C13_doolittle_flat_eq_cell
#print axioms Micm.C13_doolittle_padding_untouched
#print axioms Micm.C13_doolittle_padding_block
#print axioms Micm.C13_lu_cell_independence
#print axioms Micm.C13_solve_flat_eq_cell
#print axioms Micm.C13_solve_flat_eq_cell'
#print axioms Micm.C13_solve_cell_independence
#print axioms Micm.C13_solve_size
