/-
C18 (generated code, linear algebra) — the programs the LLVM backend generates for the diagonal shift
(`alpha_minus_jacobian`), the Doolittle decomposition and the forward/backward substitution compute what the
vectorised C++ kernels of the CPU backend compute for one group of `L` cells (`alphaMinusJacobianFlat`,
`doolittleVecGroup`, `solveVecGroup`), for every sparsity pattern (table), every `L ≥ 1` and every input.
Tie of the programs to the implementation: see `Model/JitProg.lean`.
-/
import Micm.Lemmas.JitProg

namespace Micm
set_option linter.unusedSectionVars false

section
variable {α : Type} [OfNat α 0] [Add α] [Sub α] [Mul α] [Div α]

/-! ### `alpha_minus_jacobian` -/

theorem run_alpha_go (L : Nat) (diag : List Nat) (m : JMem α) :
    JProg.run L (genAlpha L diag) m =
      { m with a0 := diag.foldl (fun J i =>
          (List.range L).foldl (fun J l => wr J (0 + i * L + l) (rd J (0 + i * L + l) + m.s)) J) m.a0 } := by
  have e : ∀ a l : Nat, 0 + a + l = l + a := by omega
  simp only [e, genAlpha]
  induction diag generalizing m with
  | nil => rfl
  | cons d ds ih =>
    simp only [List.map_cons, JProg.run_cons, List.foldl_cons]
    have h1 : (⟨.arg 0 (d * L), .add (.ld (.arg 0 (d * L))) .scalar⟩ : JLoop α).run L m =
        { m with a0 := (List.range L).foldl (fun J l => wr J (l + d * L) (rd J (l + d * L) + m.s)) m.a0 } := by
      simp only [JLoop.run]
      rw [fold_store_a0]
      rfl
    rw [h1, ih]

/-- **the generated diagonal shift is `AlphaMinusJacobian` of the CPU backend** on a Jacobian of `L` blocks -/
theorem C18_jit_alpha (L nnz : Nat) (hL : 0 < L) (diag : List Nat) (J a1 a2 buf : Array α) (alpha : α) :
    (JProg.run L (genAlpha L diag) ⟨J, a1, a2, buf, alpha⟩).a0 = alphaMinusJacobianFlat L L nnz diag J alpha := by
  rw [run_alpha_go]
  have hg : (L + L - 1) / L = 1 := by
    have : L + L - 1 = L * 1 + (L - 1) := by omega
    rw [this, Nat.mul_add_div hL, Nat.div_eq_of_lt (by omega)]
  have hL0 : L ≠ 0 := by omega
  simp [alphaMinusJacobianFlat, hL0, hg, lanesDo]

/-! ### `linear_solve` -/

theorem run_sub_mul_a0 (L c p q : Nat) (m : JMem α) :
    (⟨.arg 0 c, .sub (.ld (.arg 0 c)) (.mul (.ld (.arg 1 p)) (.ld (.arg 0 q)))⟩ : JLoop α).run L m =
      { m with a0 := (List.range L).foldl (fun x l => wr x (l + c) (rd x (l + c) - rd m.a1 (l + p) * rd x (l + q))) m.a0 } := by
  simp only [JLoop.run]
  rw [fold_store_a0]
  rfl

theorem run_sub_mul_a0' (L c p q : Nat) (m : JMem α) :
    (⟨.arg 0 c, .sub (.ld (.arg 0 c)) (.mul (.ld (.arg 0 q)) (.ld (.arg 2 p)))⟩ : JLoop α).run L m =
      { m with a0 := (List.range L).foldl (fun x l => wr x (l + c) (rd x (l + c) - rd x (l + q) * rd m.a2 (l + p))) m.a0 } := by
  simp only [JLoop.run]
  rw [fold_store_a0]
  rfl

theorem run_div_a0_a1 (L c d : Nat) (m : JMem α) :
    (⟨.arg 0 c, .div (.ld (.arg 0 c)) (.ld (.arg 1 d))⟩ : JLoop α).run L m =
      { m with a0 := (List.range L).foldl (fun x l => wr x (l + c) (rd x (l + c) / rd m.a1 (l + d))) m.a0 } := by
  simp only [JLoop.run]
  rw [fold_store_a0]
  rfl

theorem run_div_a0_a2 (L c d : Nat) (m : JMem α) :
    (⟨.arg 0 c, .div (.ld (.arg 0 c)) (.ld (.arg 2 d))⟩ : JLoop α).run L m =
      { m with a0 := (List.range L).foldl (fun x l => wr x (l + c) (rd x (l + c) / rd m.a2 (l + d))) m.a0 } := by
  simp only [JLoop.run]
  rw [fold_store_a0]
  rfl

/-- forward substitution: the generated loops against the first fold of `solveVecGroup` -/
theorem run_solve_fw (L : Nat) (fw : List SubRow) (i : Nat) (m : JMem α) :
    JProg.run L (genSolveFw L fw i) m =
      { m with a0 := (fw.foldl (fun (s : Array α × Nat) r =>
          let x := r.pairs.foldl (fun x p => lanesDo L (fun x l =>
            wr x (0 + s.2 * L + l) (rd x (0 + s.2 * L + l) - rd m.a1 (0 + p.1 * L + l) * rd x (0 + p.2 * L + l))) x) s.1
          (lanesDo L (fun x l => wr x (0 + s.2 * L + l) (rd x (0 + s.2 * L + l) / rd m.a1 (0 + r.diag * L + l))) x, s.2 + 1))
          (m.a0, i)).1 } := by
  have e : ∀ a l : Nat, 0 + a + l = l + a := by omega
  simp only [e, lanesDo]
  induction fw generalizing i m with
  | nil => rfl
  | cons r rs ih =>
    simp only [genSolveFw, List.foldl_cons]
    rw [JProg.run_append, JProg.run_append, JProg.run_singleton]
    have hp : ∀ (ps : List (Nat × Nat)) (m : JMem α),
        JProg.run L (ps.map fun p => (⟨.arg 0 (i * L), .sub (.ld (.arg 0 (i * L)))
          (.mul (.ld (.arg 1 (p.1 * L))) (.ld (.arg 0 (p.2 * L))))⟩ : JLoop α)) m =
        { m with a0 := ps.foldl (fun x p => (List.range L).foldl (fun x l =>
            wr x (l + i * L) (rd x (l + i * L) - rd m.a1 (l + p.1 * L) * rd x (l + p.2 * L))) x) m.a0 } := by
      intro ps
      induction ps with
      | nil => intro m; rfl
      | cons p ps ihp =>
        intro m
        simp only [List.map_cons, JProg.run_cons, List.foldl_cons]
        rw [run_sub_mul_a0, ihp]
    rw [hp, run_div_a0_a1, ih]

/-- backward substitution: row counter `k - 1` downwards (`k` = rows left) -/
theorem run_solve_bw (hc : ∀ a b : α, a * b = b * a) (L : Nat) (bw : List SubRow) (k : Nat) (hk : bw.length ≤ k)
    (m : JMem α) :
    JProg.run L (genSolveBw L bw k) m =
      { m with a0 := (bw.foldl (fun (s : Array α × Nat) r =>
          let x := r.pairs.foldl (fun x p => lanesDo L (fun x l =>
            wr x (0 + s.2 * L + l) (rd x (0 + s.2 * L + l) - rd m.a2 (0 + p.1 * L + l) * rd x (0 + p.2 * L + l))) x) s.1
          (lanesDo L (fun x l => wr x (0 + s.2 * L + l) (rd x (0 + s.2 * L + l) / rd m.a2 (0 + r.diag * L + l))) x,
           if s.2 = 0 then 0 else s.2 - 1))
          (m.a0, k - 1)).1 } := by
  have e : ∀ a l : Nat, 0 + a + l = l + a := by omega
  simp only [e, lanesDo]
  induction bw generalizing k m with
  | nil => rfl
  | cons r rs ih =>
    simp only [genSolveBw, List.foldl_cons]
    rw [JProg.run_append, JProg.run_append, JProg.run_singleton]
    have hp : ∀ (ps : List (Nat × Nat)) (m : JMem α),
        JProg.run L (ps.map fun p => (⟨.arg 0 ((k - 1) * L), .sub (.ld (.arg 0 ((k - 1) * L)))
          (.mul (.ld (.arg 0 (p.2 * L))) (.ld (.arg 2 (p.1 * L))))⟩ : JLoop α)) m =
        { m with a0 := ps.foldl (fun x p => (List.range L).foldl (fun x l =>
            wr x (l + (k - 1) * L) (rd x (l + (k - 1) * L) - rd m.a2 (l + p.1 * L) * rd x (l + p.2 * L))) x) m.a0 } := by
      intro ps
      induction ps with
      | nil => intro m; rfl
      | cons p ps ihp =>
        intro m
        simp only [List.map_cons, JProg.run_cons, List.foldl_cons]
        rw [run_sub_mul_a0', ihp]
        simp only [hc (rd _ (_ + p.2 * L))]
    rw [hp, run_div_a0_a2]
    have hlen : rs.length ≤ k - 1 := by simp at hk; omega
    rw [ih (k - 1) hlen]
    have hk1 : (if k - 1 = 0 then 0 else k - 1 - 1) = k - 1 - 1 := by split <;> omega
    simp only [hk1]

/-- **the generated linear solve is `LinearSolver::Solve` of the CPU backend** for one group of `L` cells
    (`n` rows: `bw` has one entry per row) -/
theorem C18_jit_solve (hc : ∀ a b : α, a * b = b * a) (L n : Nat) (fw bw : List SubRow) (hn : bw.length = n)
    (x Lo Up buf : Array α) (s : α) :
    (JProg.run L (genSolve L fw bw) ⟨x, Lo, Up, buf, s⟩).a0 = solveVecGroup L n fw bw Lo Up 0 0 0 x ∧
    (JProg.run L (genSolve L fw bw) ⟨x, Lo, Up, buf, s⟩).a1 = Lo ∧
    (JProg.run L (genSolve L fw bw) ⟨x, Lo, Up, buf, s⟩).a2 = Up := by
  simp only [genSolve]
  rw [JProg.run_append, run_solve_fw, run_solve_bw hc L bw bw.length (Nat.le_refl _)]
  subst hn
  exact ⟨rfl, rfl, rfl⟩

theorem C18_jit_solve_whole (hc : ∀ a b : α, a * b = b * a) (L n nnzL nnzU : Nat) (hL : 0 < L) (fw bw : List SubRow)
    (hn : bw.length = n) (x Lo Up buf : Array α) (s : α) :
    (JProg.run L (genSolve L fw bw) ⟨x, Lo, Up, buf, s⟩).a0 = solveFlat L L n fw bw nnzL nnzU Lo Up x := by
  rw [(C18_jit_solve hc L n fw bw hn x Lo Up buf s).1]
  have hg : (L + L - 1) / L = 1 := by
    have : L + L - 1 = L * 1 + (L - 1) := by omega
    rw [this, Nat.mul_add_div hL, Nat.div_eq_of_lt (by omega)]
  have hL0 : L ≠ 0 := by omega
  simp [solveFlat, hL0, hg]

/-! ### `lu_decompose` -/

section LU
variable [OfNat α 1]

/-- the loop that initialises a target element from A (or with zero), third argument (U) -/
theorem run_init_a2 (L t : Nat) (a : Option Nat) (m : JMem α) :
    (⟨.arg 2 (t * L), jInit L a⟩ : JLoop α).run L m =
      { m with a2 := (List.range L).foldl (fun U l =>
          wr U (l + t * L) (match a with | some a => rd m.a0 (l + a * L) | none => 0)) m.a2 } := by
  simp only [JLoop.run]
  rw [fold_store_a2]
  cases a <;> rfl

theorem run_init_a1 (L t : Nat) (a : Option Nat) (m : JMem α) :
    (⟨.arg 1 (t * L), jInit L a⟩ : JLoop α).run L m =
      { m with a1 := (List.range L).foldl (fun Lo l =>
          wr Lo (l + t * L) (match a with | some a => rd m.a0 (l + a * L) | none => 0)) m.a1 } := by
  simp only [JLoop.run]
  rw [fold_store_a1]
  cases a <;> rfl

theorem run_pair_a2 (L t p q : Nat) (m : JMem α) :
    (⟨.arg 2 t, .sub (.ld (.arg 2 t)) (.mul (.ld (.arg 1 p)) (.ld (.arg 2 q)))⟩ : JLoop α).run L m =
      { m with a2 := (List.range L).foldl (fun U l => wr U (l + t) (rd U (l + t) - rd m.a1 (l + p) * rd U (l + q))) m.a2 } := by
  simp only [JLoop.run]
  rw [fold_store_a2]
  rfl

theorem run_pair_a1 (L t p q : Nat) (m : JMem α) :
    (⟨.arg 1 t, .sub (.ld (.arg 1 t)) (.mul (.ld (.arg 1 p)) (.ld (.arg 2 q)))⟩ : JLoop α).run L m =
      { m with a1 := (List.range L).foldl (fun Lo l => wr Lo (l + t) (rd Lo (l + t) - rd Lo (l + p) * rd m.a2 (l + q))) m.a1 } := by
  simp only [JLoop.run]
  rw [fold_store_a1]
  rfl

theorem run_div_a1_a2 (L t d : Nat) (m : JMem α) :
    (⟨.arg 1 t, .div (.ld (.arg 1 t)) (.ld (.arg 2 d))⟩ : JLoop α).run L m =
      { m with a1 := (List.range L).foldl (fun Lo l => wr Lo (l + t) (rd Lo (l + t) / rd m.a2 (l + d))) m.a1 } := by
  simp only [JLoop.run]
  rw [fold_store_a1]
  rfl

theorem run_one_a1 (L t : Nat) (m : JMem α) :
    (⟨.arg 1 t, .const 1⟩ : JLoop α).run L m =
      { m with a1 := (List.range L).foldl (fun Lo l => wr Lo (l + t) 1) m.a1 } := by
  simp only [JLoop.run]
  rw [fold_store_a1]
  rfl

/-- the upper-triangular part of one row -/
theorem run_lu_u (L : Nat) (us : List DEntry) (m : JMem α) :
    JProg.run L (us.flatMap fun e =>
        [(⟨.arg 2 (e.t * L), jInit L e.a⟩ : JLoop α)]
          ++ e.pairs.map fun p =>
            ⟨.arg 2 (e.t * L), .sub (.ld (.arg 2 (e.t * L))) (.mul (.ld (.arg 1 (p.1 * L))) (.ld (.arg 2 (p.2 * L))))⟩) m =
      { m with a2 := us.foldl (fun U e =>
          let U := lanesDo L (fun U l => wr U (0 + e.t * L + l) (match e.a with | some a => rd m.a0 (0 + a * L + l) | none => 0)) U
          e.pairs.foldl (fun U p => lanesDo L (fun U l =>
            wr U (0 + e.t * L + l) (rd U (0 + e.t * L + l) - rd m.a1 (0 + p.1 * L + l) * rd U (0 + p.2 * L + l))) U) U) m.a2 } := by
  have e0 : ∀ a l : Nat, 0 + a + l = l + a := by omega
  simp only [e0, lanesDo]
  rw [JProg.run_flatMap]
  induction us generalizing m with
  | nil => rfl
  | cons e es ih =>
    simp only [List.foldl_cons]
    rw [JProg.run_append, JProg.run_singleton, run_init_a2]
    have hp : ∀ (ps : List (Nat × Nat)) (m : JMem α),
        JProg.run L (ps.map fun p => (⟨.arg 2 (e.t * L), .sub (.ld (.arg 2 (e.t * L)))
          (.mul (.ld (.arg 1 (p.1 * L))) (.ld (.arg 2 (p.2 * L))))⟩ : JLoop α)) m =
        { m with a2 := ps.foldl (fun U p => (List.range L).foldl (fun U l =>
            wr U (l + e.t * L) (rd U (l + e.t * L) - rd m.a1 (l + p.1 * L) * rd U (l + p.2 * L))) U) m.a2 } := by
      intro ps
      induction ps with
      | nil => intro m; rfl
      | cons p ps ihp =>
        intro m
        simp only [List.map_cons, JProg.run_cons, List.foldl_cons]
        rw [run_pair_a2, ihp]
    rw [hp, ih]

/-- the lower-triangular part of one row (after `L_ii := 1`) -/
theorem run_lu_l (L uii : Nat) (ls : List DEntry) (m : JMem α) :
    JProg.run L (ls.flatMap fun e =>
        [(⟨.arg 1 (e.t * L), jInit L e.a⟩ : JLoop α)]
          ++ (e.pairs.map fun p =>
            ⟨.arg 1 (e.t * L), .sub (.ld (.arg 1 (e.t * L))) (.mul (.ld (.arg 1 (p.1 * L))) (.ld (.arg 2 (p.2 * L))))⟩)
          ++ [⟨.arg 1 (e.t * L), .div (.ld (.arg 1 (e.t * L))) (.ld (.arg 2 (uii * L)))⟩]) m =
      { m with a1 := ls.foldl (fun Lo e =>
          let Lo := lanesDo L (fun Lo l => wr Lo (0 + e.t * L + l) (match e.a with | some a => rd m.a0 (0 + a * L + l) | none => 0)) Lo
          let Lo := e.pairs.foldl (fun Lo p => lanesDo L (fun Lo l =>
            wr Lo (0 + e.t * L + l) (rd Lo (0 + e.t * L + l) - rd Lo (0 + p.1 * L + l) * rd m.a2 (0 + p.2 * L + l))) Lo) Lo
          lanesDo L (fun Lo l => wr Lo (0 + e.t * L + l) (rd Lo (0 + e.t * L + l) / rd m.a2 (0 + uii * L + l))) Lo) m.a1 } := by
  have e0 : ∀ a l : Nat, 0 + a + l = l + a := by omega
  simp only [e0, lanesDo]
  rw [JProg.run_flatMap]
  induction ls generalizing m with
  | nil => rfl
  | cons e es ih =>
    simp only [List.foldl_cons]
    rw [JProg.run_append, JProg.run_append, JProg.run_singleton, JProg.run_singleton, run_init_a1]
    have hp : ∀ (ps : List (Nat × Nat)) (m : JMem α),
        JProg.run L (ps.map fun p => (⟨.arg 1 (e.t * L), .sub (.ld (.arg 1 (e.t * L)))
          (.mul (.ld (.arg 1 (p.1 * L))) (.ld (.arg 2 (p.2 * L))))⟩ : JLoop α)) m =
        { m with a1 := ps.foldl (fun Lo p => (List.range L).foldl (fun Lo l =>
            wr Lo (l + e.t * L) (rd Lo (l + e.t * L) - rd Lo (l + p.1 * L) * rd m.a2 (l + p.2 * L))) Lo) m.a1 } := by
      intro ps
      induction ps with
      | nil => intro m; rfl
      | cons p ps ihp =>
        intro m
        simp only [List.map_cons, JProg.run_cons, List.foldl_cons]
        rw [run_pair_a1, ihp]
    rw [hp, run_div_a1_a2, ih]

/-- **the generated decomposition is `LuDecompositionDoolittle::Decompose` of the CPU backend** for one group of
    `L` cells, all `L` lanes active; whatever `lower` and `upper` held before -/
theorem C18_jit_lu (L : Nat) (rows : List DRow) (A Lo Up buf : Array α) (s : α) :
    ((JProg.run L (genDoolittle L rows) ⟨A, Lo, Up, buf, s⟩).a1, (JProg.run L (genDoolittle L rows) ⟨A, Lo, Up, buf, s⟩).a2)
      = doolittleVecGroup L L rows A 0 0 0 (Lo, Up) ∧
    (JProg.run L (genDoolittle L rows) ⟨A, Lo, Up, buf, s⟩).a0 = A := by
  have key : ∀ (rows : List DRow) (m : JMem α),
      JProg.run L (genDoolittle L rows) m =
        { m with a1 := (doolittleVecGroup L L rows m.a0 0 0 0 (m.a1, m.a2)).1,
                 a2 := (doolittleVecGroup L L rows m.a0 0 0 0 (m.a1, m.a2)).2 } := by
    intro rows
    simp only [genDoolittle, doolittleVecGroup]
    induction rows with
    | nil => intro m; rfl
    | cons r rs ih =>
      intro m
      rw [List.flatMap_cons, JProg.run_append, List.foldl_cons]
      rw [JProg.run_append, JProg.run_append, JProg.run_singleton, run_lu_u, run_one_a1, run_lu_l, ih]
      have e0 : ∀ a l : Nat, 0 + a + l = l + a := by omega
      simp only [e0, lanesDo]
      rfl
  rw [key]
  exact ⟨rfl, rfl⟩

theorem C18_jit_lu_whole (L nnzA nnzL nnzU : Nat) (hL : 0 < L) (rows : List DRow) (A Lo Up buf : Array α) (s : α) :
    ((JProg.run L (genDoolittle L rows) ⟨A, Lo, Up, buf, s⟩).a1, (JProg.run L (genDoolittle L rows) ⟨A, Lo, Up, buf, s⟩).a2)
      = doolittleFlat L L rows nnzA nnzL nnzU A (Lo, Up) := by
  rw [(C18_jit_lu L rows A Lo Up buf s).1]
  have hg : (L + L - 1) / L = 1 := by
    have : L + L - 1 = L * 1 + (L - 1) := by omega
    rw [this, Nat.mul_add_div hL, Nat.div_eq_of_lt (by omega)]
  have hL0 : L ≠ 0 := by omega
  simp [doolittleFlat, hL0, hg]

end LU

end

/-! ### non-vacuity: a concrete 2×2 system, `L = 1`, over `Rat` -/

/-- `A = [[4, 2], [2, 3]]` (full pattern, ranks 0..3 row-major): `L = [[1, 0], [1/2, 1]]`, `U = [[4, 2], [0, 2]]`; the
    generated program is run on garbage-filled `L`, `U` -/
example :
    let rows : List DRow :=
      [ { u := [⟨some 0, 0, []⟩, ⟨some 1, 1, []⟩], lii := 0, l := [⟨some 2, 1, []⟩], uii := 0 },
        { u := [⟨some 3, 2, [(1, 1)]⟩], lii := 2, l := [], uii := 2 } ]
    let m := JProg.run 1 (genDoolittle (α := Rat) 1 rows) ⟨#[4, 2, 2, 3], #[9, 9, 9], #[7, 7, 7], #[], 0⟩
    m.a1 = #[1, 1/2, 1] ∧ m.a2 = #[4, 2, 2] := by
  decide +kernel

#print axioms C18_jit_lu
#print axioms C18_jit_lu_whole
#print axioms C18_jit_alpha
#print axioms C18_jit_solve
#print axioms C18_jit_solve_whole
end Micm
