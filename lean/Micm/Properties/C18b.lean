/-
C18 (generated code) — the program the LLVM backend generates for the forcing and for the Jacobian
(`Model/JitProg.lean`, tied loop for loop to the textual IR the implementation emits) computes, for every table,
every lane count `L ≥ 0` and every input, what the vectorised C++ kernels of the CPU backend compute for one group
of `L` cells (`forcingVecGo`, `jacVecGo` of `Model/FlatKernels*.lean`, offsets 0: the JIT solver has exactly `L`
cells).  The contents of the `alloca`'d lane buffer on entry are arbitrary.

The only algebraic fact used is commutativity of the multiplication (`rate * yield` in the generated code,
`yield * rate` in the C++ kernel); IEEE-754 multiplication is commutative (up to NaN payloads).
-/
import Micm.Lemmas.JitProg

namespace Micm
set_option linter.unusedSectionVars false

section
variable {α : Type} [OfNat α 0] [Add α] [Sub α] [Mul α] [Div α]

/-! ### the four loop shapes of the forcing / Jacobian functions -/

theorem run_load_a0 (L c : Nat) (m : JMem α) (hb : m.buf.size = L) :
    (⟨.buf, .ld (.arg 0 c)⟩ : JLoop α).run L m =
      { m with buf := ((List.range L).map fun l => rd m.a0 (0 + c + l)).toArray } := by
  simp only [JLoop.run]
  rw [fold_store_buf]
  have : (fun (b : Array α) i => wr b i (JExpr.eval { m with buf := b } i (.ld (.arg 0 c)))) =
      fun b i => wr b i (rd m.a0 (0 + c + i)) := by
    funext b i
    show wr b i (rd m.a0 (i + c)) = _
    rw [show i + c = 0 + c + i by omega]
  rw [this, fold_wr_range _ _ _ hb]

theorem run_mul_a1 (L c : Nat) (m : JMem α) :
    (⟨.buf, .mul (.ld .buf) (.ld (.arg 1 c))⟩ : JLoop α).run L m =
      { m with buf := (List.range L).foldl (fun b l => wr b l (rd b l * rd m.a1 (l + c))) m.buf } := by
  simp only [JLoop.run]
  rw [fold_store_buf]
  rfl

theorem run_sub_buf (L c : Nat) (m : JMem α) :
    (⟨.arg 2 c, .sub (.ld (.arg 2 c)) (.ld .buf)⟩ : JLoop α).run L m =
      { m with a2 := (List.range L).foldl (fun F l => wr F (l + c) (rd F (l + c) - rd m.buf l)) m.a2 } := by
  simp only [JLoop.run]
  rw [fold_store_a2]
  rfl

theorem run_add_buf (L c : Nat) (m : JMem α) :
    (⟨.arg 2 c, .add (.ld (.arg 2 c)) (.ld .buf)⟩ : JLoop α).run L m =
      { m with a2 := (List.range L).foldl (fun F l => wr F (l + c) (rd F (l + c) + rd m.buf l)) m.a2 } := by
  simp only [JLoop.run]
  rw [fold_store_a2]
  rfl

theorem run_add_yield (L c : Nat) (y : α) (m : JMem α) :
    (⟨.arg 2 c, .add (.ld (.arg 2 c)) (.mul (.ld .buf) (.const y))⟩ : JLoop α).run L m =
      { m with a2 := (List.range L).foldl (fun F l => wr F (l + c) (rd F (l + c) + rd m.buf l * y)) m.a2 } := by
  simp only [JLoop.run]
  rw [fold_store_a2]
  rfl

theorem run_sub_yield (L c : Nat) (y : α) (m : JMem α) :
    (⟨.arg 2 c, .sub (.ld (.arg 2 c)) (.mul (.ld .buf) (.const y))⟩ : JLoop α).run L m =
      { m with a2 := (List.range L).foldl (fun F l => wr F (l + c) (rd F (l + c) - rd m.buf l * y)) m.a2 } := by
  simp only [JLoop.run]
  rw [fold_store_a2]
  rfl

/-! ### segments -/

/-- the `rate calc` loops of one reaction: only the lane buffer changes -/
theorem run_mul_segment (L : Nat) (rs : List Nat) (m : JMem α) :
    JProg.run L (rs.map fun i => (⟨.buf, .mul (.ld .buf) (.ld (.arg 1 (i * L)))⟩ : JLoop α)) m =
      { m with buf := rs.foldl (fun rate i =>
          (List.range L).foldl (fun rate l => wr rate l (rd rate l * rd m.a1 (0 + i * L + l))) rate) m.buf } := by
  have e : ∀ a l : Nat, 0 + a + l = l + a := by omega
  simp only [e]
  induction rs generalizing m with
  | nil => rfl
  | cons i rs ih =>
    simp only [List.map_cons, JProg.run_cons, List.foldl_cons]
    rw [run_mul_a1, ih]

theorem run_sub_segment (L : Nat) (rs : List Nat) (m : JMem α) :
    JProg.run L (rs.map fun i => (⟨.arg 2 (i * L), .sub (.ld (.arg 2 (i * L))) (.ld .buf)⟩ : JLoop α)) m =
      { m with a2 := rs.foldl (fun F i =>
          (List.range L).foldl (fun F l => wr F (0 + i * L + l) (rd F (0 + i * L + l) - rd m.buf l)) F) m.a2 } := by
  have e : ∀ a l : Nat, 0 + a + l = l + a := by omega
  simp only [e]
  induction rs generalizing m with
  | nil => rfl
  | cons i rs ih =>
    simp only [List.map_cons, JProg.run_cons, List.foldl_cons]
    rw [run_sub_buf, ih]

theorem run_add_segment (L : Nat) (fs : List Nat) (m : JMem α) :
    JProg.run L (fs.map fun f => (⟨.arg 2 (f * L), .add (.ld (.arg 2 (f * L))) (.ld .buf)⟩ : JLoop α)) m =
      { m with a2 := fs.foldl (fun J f =>
          (List.range L).foldl (fun J l => wr J (0 + f * L + l) (rd J (0 + f * L + l) + rd m.buf l)) J) m.a2 } := by
  have e : ∀ a l : Nat, 0 + a + l = l + a := by omega
  simp only [e]
  induction fs generalizing m with
  | nil => rfl
  | cons i fs ih =>
    simp only [List.map_cons, JProg.run_cons, List.foldl_cons]
    rw [run_add_buf, ih]

theorem run_add_yield_segment (hc : ∀ a b : α, a * b = b * a) (L : Nat) (ps : List (Nat × α)) (m : JMem α) :
    JProg.run L (ps.map fun p =>
        (⟨.arg 2 (p.1 * L), .add (.ld (.arg 2 (p.1 * L))) (.mul (.ld .buf) (.const p.2))⟩ : JLoop α)) m =
      { m with a2 := ps.foldl (fun F p =>
          (List.range L).foldl (fun F l => wr F (0 + p.1 * L + l) (rd F (0 + p.1 * L + l) + p.2 * rd m.buf l)) F) m.a2 } := by
  have e : ∀ a l : Nat, 0 + a + l = l + a := by omega
  simp only [e]
  induction ps generalizing m with
  | nil => rfl
  | cons p ps ih =>
    simp only [List.map_cons, JProg.run_cons, List.foldl_cons]
    rw [run_add_yield, ih]
    simp only [hc p.2]

theorem run_sub_yield_segment (hc : ∀ a b : α, a * b = b * a) (L : Nat) (ps : List (Nat × α)) (m : JMem α) :
    JProg.run L (ps.map fun p =>
        (⟨.arg 2 (p.1 * L), .sub (.ld (.arg 2 (p.1 * L))) (.mul (.ld .buf) (.const p.2))⟩ : JLoop α)) m =
      { m with a2 := ps.foldl (fun J p =>
          (List.range L).foldl (fun J l => wr J (0 + p.1 * L + l) (rd J (0 + p.1 * L + l) - p.2 * rd m.buf l)) J) m.a2 } := by
  have e : ∀ a l : Nat, 0 + a + l = l + a := by omega
  simp only [e]
  induction ps generalizing m with
  | nil => rfl
  | cons p ps ih =>
    simp only [List.map_cons, JProg.run_cons, List.foldl_cons]
    rw [run_sub_yield, ih]
    simp only [hc p.2]

/-- the size of the lane buffer is kept by the `rate calc` loops -/
theorem mul_fold_size (L : Nat) (Y : Array α) (rs : List Nat) (b : Array α) :
    (rs.foldl (fun rate i =>
      (List.range L).foldl (fun rate l => wr rate l (rd rate l * rd Y (0 + i * L + l))) rate) b).size = b.size := by
  induction rs generalizing b with
  | nil => rfl
  | cons i rs ih =>
    simp only [List.foldl_cons]
    rw [ih]
    generalize List.range L = ls
    induction ls generalizing b with
    | nil => rfl
    | cons l ls ih2 => simp only [List.foldl_cons]; rw [ih2]; simp

/-! ### the forcing function -/

theorem jit_forcing_go (hc : ∀ a b : α, a * b = b * a) (L : Nat) (K Y : Array α) :
    ∀ (nrs nps rids pids : List Nat) (ylds : List α) (iRxn : Nat) (F buf : Array α), buf.size = L →
      (JProg.run L (genForcingGo L nrs nps rids pids ylds iRxn) ⟨K, Y, F, buf, 0⟩).a0 = K ∧
      (JProg.run L (genForcingGo L nrs nps rids pids ylds iRxn) ⟨K, Y, F, buf, 0⟩).a1 = Y ∧
      (JProg.run L (genForcingGo L nrs nps rids pids ylds iRxn) ⟨K, Y, F, buf, 0⟩).a2 =
        forcingVecGo L Y K 0 0 nrs nps rids pids ylds iRxn F ∧
      (JProg.run L (genForcingGo L nrs nps rids pids ylds iRxn) ⟨K, Y, F, buf, 0⟩).buf.size = L := by
  intro nrs
  induction nrs with
  | nil => intro nps rids pids ylds iRxn F buf hb; simp [genForcingGo, forcingVecGo, JProg.run_nil, hb]
  | cons nr nrs ih =>
    intro nps rids pids ylds iRxn F buf hb
    cases nps with
    | nil => simp [genForcingGo, forcingVecGo, JProg.run_nil, hb]
    | cons np nps =>
      simp only [genForcingGo, forcingVecGo, forcingVecRxn]
      rw [JProg.run_append, JProg.run_append, JProg.run_append, JProg.run_append]
      rw [JProg.run_cons, JProg.run_nil, run_load_a0 L _ _ hb, run_mul_segment, run_sub_segment,
        run_add_yield_segment hc]
      exact ih nps _ _ _ _ _ _ (by rw [mul_fold_size]; simp)

/-- **the generated forcing function is the vectorised CPU kernel** -/
theorem C18_jit_forcing (hc : ∀ a b : α, a * b = b * a) (t : PSTables α) (L : Nat)
    (K Y F buf : Array α) (hb : buf.size = L) :
    ((t.genForcing L).run L ⟨K, Y, F, buf, 0⟩).a2 =
      forcingVecGo L Y K 0 0 t.nReact t.nProd t.reactIds t.prodIds t.yields 0 F ∧
    ((t.genForcing L).run L ⟨K, Y, F, buf, 0⟩).a0 = K ∧ ((t.genForcing L).run L ⟨K, Y, F, buf, 0⟩).a1 = Y := by
  obtain ⟨h0, h1, h2, _⟩ := jit_forcing_go hc L K Y t.nReact t.nProd t.reactIds t.prodIds t.yields 0 F buf hb
  exact ⟨h2, h0, h1⟩

/-- for a JIT solver (exactly `L` cells, one group) this is the whole `AddForcingTerms` of the CPU backend -/
theorem C18_jit_forcing_whole (hc : ∀ a b : α, a * b = b * a) (t : PSTables α) (L nRxn nSpecies : Nat) (hL : 0 < L)
    (K Y F buf : Array α) (hb : buf.size = L) :
    ((t.genForcing L).run L ⟨K, Y, F, buf, 0⟩).a2 = t.addForcingFlatVec L L nRxn nSpecies K Y F := by
  rw [(C18_jit_forcing hc t L K Y F buf hb).1]
  have hg : (L + L - 1) / L = 1 := by
    have : L + L - 1 = L * 1 + (L - 1) := by omega
    rw [this, Nat.mul_add_div hL, Nat.div_eq_of_lt (by omega)]
  simp [PSTables.addForcingFlatVec, hg]

/-! ### the Jacobian function -/

theorem jit_jacobian_go (hc : ∀ a b : α, a * b = b * a) (L : Nat) (K Y : Array α) :
    ∀ (infos : List ProcessInfo) (jr : List Nat) (jy : List α) (flat : List Nat) (J buf : Array α), buf.size = L →
      (JProg.run L (genJacobianGo L infos jr jy flat) ⟨K, Y, J, buf, 0⟩).a0 = K ∧
      (JProg.run L (genJacobianGo L infos jr jy flat) ⟨K, Y, J, buf, 0⟩).a1 = Y ∧
      (JProg.run L (genJacobianGo L infos jr jy flat) ⟨K, Y, J, buf, 0⟩).a2 = jacVecGo L K Y 0 0 0 infos jr jy flat J ∧
      (JProg.run L (genJacobianGo L infos jr jy flat) ⟨K, Y, J, buf, 0⟩).buf.size = L := by
  intro infos
  induction infos with
  | nil => intro jr jy flat J buf hb; simp [genJacobianGo, jacVecGo, JProg.run_nil, hb]
  | cons info infos ih =>
    intro jr jy flat J buf hb
    simp only [genJacobianGo, jacVecGo, jacVecEntry, lanesDo]
    rw [JProg.run_append, JProg.run_append, JProg.run_append, JProg.run_append]
    rw [JProg.run_cons, JProg.run_nil, run_load_a0 L _ _ hb, run_mul_segment, run_add_segment,
      run_sub_yield_segment hc]
    exact ih _ _ _ _ _ (by rw [mul_fold_size]; simp)

/-- **the generated Jacobian function is the vectorised CPU kernel** (whatever pattern the flat ids were set on:
    `flat` is an input) -/
theorem C18_jit_jacobian (hc : ∀ a b : α, a * b = b * a) (t : PSTables α) (flat : List Nat) (L : Nat)
    (K Y J buf : Array α) (hb : buf.size = L) :
    ((t.genJacobian flat L).run L ⟨K, Y, J, buf, 0⟩).a2 = jacVecGo L K Y 0 0 0 t.jInfo t.jReactIds t.jYields flat J ∧
    ((t.genJacobian flat L).run L ⟨K, Y, J, buf, 0⟩).a0 = K ∧ ((t.genJacobian flat L).run L ⟨K, Y, J, buf, 0⟩).a1 = Y := by
  obtain ⟨h0, h1, h2, _⟩ := jit_jacobian_go hc L K Y t.jInfo t.jReactIds t.jYields flat J buf hb
  exact ⟨h2, h0, h1⟩

theorem C18_jit_jacobian_whole (hc : ∀ a b : α, a * b = b * a) (t : PSTables α) (flat : List Nat)
    (L nRxn nSpecies nnz : Nat) (hL : 0 < L) (K Y J buf : Array α) (hb : buf.size = L) :
    ((t.genJacobian flat L).run L ⟨K, Y, J, buf, 0⟩).a2 = t.subtractJacobianFlatVec flat L L nRxn nSpecies nnz K Y J := by
  rw [(C18_jit_jacobian hc t flat L K Y J buf hb).1]
  have hg : (L + L - 1) / L = 1 := by
    have : L + L - 1 = L * 1 + (L - 1) := by omega
    rw [this, Nat.mul_add_div hL, Nat.div_eq_of_lt (by omega)]
  simp [PSTables.subtractJacobianFlatVec, hg]

end

/-! ### non-vacuity: a concrete mechanism, `L = 2`, over `Int` -/

/-- `A + B → 2·C` (yield 2), one reaction, three species; lane buffer holds garbage on entry -/
example :
    let t : PSTables Int := { nReact := [2], reactIds := [0, 1], nProd := [1], prodIds := [2], yields := [2] }
    ((t.genForcing 2).run 2 ⟨#[3, 5], #[2, 3, 4, 5, 0, 0], #[0, 0, 0, 0, 0, 0], #[77, -9], 0⟩).a2
      = #[-24, -75, -24, -75, 48, 150] := by
  decide

#print axioms C18_jit_forcing
#print axioms C18_jit_forcing_whole
#print axioms C18_jit_jacobian
#print axioms C18_jit_jacobian_whole
end Micm
