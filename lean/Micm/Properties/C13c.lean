/-
C13 (third part) — grid cells are independent; any cell count works:
Mozart, Doolittle-in-place and Mozart-in-place LU decompositions, the in-place linear solve and
`AlphaMinusJacobian` on flat storage.

Theorems about the flat-storage kernels of `Micm/Model/FlatKernels3.lean` (`mozartFlat`,
`doolittleInPlaceFlat`, `mozartInPlaceFlat`, `solveInPlaceFlat`, `alphaMinusJacobianFlat`: the loops
of `LuDecompositionMozart::Decompose`, `LuDecompositionDoolittleInPlace::Decompose`,
`LuDecompositionMozartInPlace::Decompose`, `LinearSolverInPlace::Solve`, `AlphaMinusJacobian`, for
the standard layout `L = 0` and the vector layouts `L ≥ 1`; the LU kernels run
`min L (blocks - g*L)` lanes of group `g`, solve and `AlphaMinusJacobian` all `L` lanes, padding
included) and the per-cell / logical kernels `mozartCell`, `doolittleInPlaceCell`,
`mozartInPlaceCell`, `solveInPlaceCell` (`LU.lean`), `SolverCfg.alphaMinusJacobian`
(`Rosenbrock.lean`) — the ones C03 / C04 / C05 speak of.

Storage conventions (`slot`, `vectorSize`, `sparseRow`, `DenseShape.addr`, `flatRow`) as in
`C13b.lean`.  Range predicates on the tables (`Micm/Lemmas/Lanes3.lean`, restated by the
`example`s below): `MInit.InRange`, `MRow.InRange`, `DIRow.InRange`, `MIRow.InRange` — every element
rank of a table row is inside its pattern — and `MIRow.Distinct`.

Which hypotheses are needed (and which are not):
 * the vector Mozart kernels first fill an `L`-lane buffer `inv[l] = 1 / U[uii][l]` (resp.
   `1 / M[aii][l]`) and then multiply the column by it.  The per-cell kernels compute `inv` once
   before the loop as well, so lane `l` of the buffer *is* the per-cell `inv`: no hypothesis
   relating `uii` / `aii` to the ranks written by the loop is needed (neither for `mozartFlat`,
   where `inv` reads `U` and the loop writes `L`, nor for `mozartInPlaceFlat`, where both are `M`).
 * the in-place Mozart vector kernel re-reads `M[aik]` in every iteration of the `(a_jk, a_ji)` loop
   of one `k`, the per-cell kernel `mozartInPlaceCell` reads it once before that loop.  They agree
   when the loop does not write `aik`: `MIRow.Distinct` (`p.1 ≠ k.aik` for the pairs of `k`).  This
   holds for the built tables (`a_jk`, `j > i`, is another element than `a_ik`).
 * sizes: only of the arrays that are written (the model drops out-of-range writes).
 * the forward pass of the in-place solve never reads `SubRow.diag`: only its pairs must be in range.

`C13_tables_in_range`: all these hypotheses hold for the tables `LinAlg.build` produces (any kind,
any `Pattern.mk' n csc L set` with `WF n set` and a full diagonal); the corollaries `C13_build_*`
are the lane theorems for the built tables, without table hypotheses.

Everything is parametric in the element type (notation classes only, no algebraic law): every
statement holds verbatim for `Float`.

Proofs: `Micm/Lemmas/Lanes3.lean`, `Micm/Lemmas/TablesInRange.lean`.
-/
import Micm.Lemmas.Lanes3
import Micm.Lemmas.TablesInRange
namespace Micm

/-! ### the range predicates, unfolded -/

example (r : MInit) (nnzA nnzL nnzU : Nat) :
    r.InRange nnzA nnzL nnzU ↔
      r.lii < nnzL ∧ (∀ p ∈ r.ujiAji, p.1 < nnzU ∧ p.2 < nnzA) ∧ (∀ p ∈ r.ljiAji, p.1 < nnzL ∧ p.2 < nnzA) ∧
      (∀ i ∈ r.fillU, i < nnzU) ∧ ∀ i ∈ r.fillL, i < nnzL := Iff.rfl
example (r : MRow) (nnzL nnzU : Nat) :
    r.InRange nnzL nnzU ↔
      r.uii < nnzU ∧ (∀ i ∈ r.lji, i < nnzL) ∧
      ∀ k ∈ r.ks, k.uik < nnzU ∧ (∀ p ∈ k.ujk, p.1 < nnzU ∧ p.2 < nnzL) ∧ ∀ p ∈ k.ljk, p.1 < nnzL ∧ p.2 < nnzL :=
  Iff.rfl
example (r : DIRow) (nnz : Nat) :
    r.InRange nnz ↔
      r.aii < nnz ∧ (∀ e ∈ r.u, e.t < nnz ∧ ∀ p ∈ e.pairs, p.1 < nnz ∧ p.2 < nnz) ∧
      ∀ e ∈ r.l, e.t < nnz ∧ ∀ p ∈ e.pairs, p.1 < nnz ∧ p.2 < nnz := Iff.rfl
example (r : MIRow) (nnz : Nat) :
    r.InRange nnz ↔
      r.aii < nnz ∧ (∀ i ∈ r.aji, i < nnz) ∧ ∀ k ∈ r.ks, k.aik < nnz ∧ ∀ p ∈ k.pairs, p.1 < nnz ∧ p.2 < nnz :=
  Iff.rfl
example (r : MIRow) : r.Distinct ↔ ∀ k ∈ r.ks, ∀ p ∈ k.pairs, p.1 ≠ k.aik := Iff.rfl
example (L blocks : Nat) : paddedBlocks L blocks = if L = 0 then blocks else (blocks + L - 1) / L * L := rfl
example {α : Type} [OfNat α 0] (L nnz blocks : Nat) (D : Array α) :
    sparseRows L nnz blocks D = ((List.range blocks).map (sparseRow L nnz D)).toArray := rfl

/-! ### 1. Mozart LU (separate `L`, `U`) -/
section Mozart
variable {α : Type} [OfNat α 0] [OfNat α 1] [Sub α] [Mul α] [Div α]

/-- **Lane theorem, Mozart LU.**  Both layouts (`L = 0`, every `L ≥ 1`), every block count (also
    `blocks < L`, `blocks % L ≠ 0`), every real block `b < blocks`: logical block `b` of the flat
    `(L, U)` result is `mozartCell` on logical block `b` of `A`, `L`, `U`. -/
theorem C13_mozart_flat_eq_cell (L blocks : Nat) (ini : List MInit) (rows : List MRow) (nnzA nnzL nnzU : Nat)
    (hini : ∀ r ∈ ini, r.InRange nnzA nnzL nnzU) (hrows : ∀ r ∈ rows, r.InRange nnzL nnzU)
    (A Lo Up : Array α) (hLo : Lo.size = vectorSize L nnzL blocks) (hUp : Up.size = vectorSize L nnzU blocks)
    (b : Nat) (hb : b < blocks) :
    (sparseRow L nnzL (mozartFlat L blocks ini rows nnzA nnzL nnzU A (Lo, Up)).1 b,
     sparseRow L nnzU (mozartFlat L blocks ini rows nnzA nnzL nnzU A (Lo, Up)).2 b)
      = mozartCell ini rows (sparseRow L nnzA A b) (sparseRow L nnzL Lo b, sparseRow L nnzU Up b) := by
  obtain ⟨hL, hU⟩ := mozartFlat_views L blocks ini rows nnzA nnzL nnzU hini hrows A Lo Up hLo hUp b hb
  exact Prod.ext hL.sparseRow_eq hU.sparseRow_eq

/-- **Padding lanes are not touched by the Mozart LU**: the sizes are kept and every slot that is
    not the slot of an element of a real block keeps its content. -/
theorem C13_mozart_padding_untouched (L blocks : Nat) (ini : List MInit) (rows : List MRow)
    (nnzA nnzL nnzU : Nat) (hini : ∀ r ∈ ini, r.InRange nnzA nnzL nnzU)
    (hrows : ∀ r ∈ rows, r.InRange nnzL nnzU) (A Lo Up : Array α) :
    ((mozartFlat L blocks ini rows nnzA nnzL nnzU A (Lo, Up)).1.size = Lo.size ∧
      ∀ x, (∀ b k, b < blocks → k < nnzL → slot L nnzL b k ≠ x) →
        rd (mozartFlat L blocks ini rows nnzA nnzL nnzU A (Lo, Up)).1 x = rd Lo x) ∧
    ((mozartFlat L blocks ini rows nnzA nnzL nnzU A (Lo, Up)).2.size = Up.size ∧
      ∀ x, (∀ b k, b < blocks → k < nnzU → slot L nnzU b k ≠ x) →
        rd (mozartFlat L blocks ini rows nnzA nnzL nnzU A (Lo, Up)).2 x = rd Up x) :=
  mozartFlat_frame L blocks ini rows nnzA nnzL nnzU hini hrows A (Lo, Up)

/-- in particular the padding blocks `blocks ≤ b` keep their content -/
theorem C13_mozart_padding_block (L blocks : Nat) (ini : List MInit) (rows : List MRow)
    (nnzA nnzL nnzU : Nat) (hini : ∀ r ∈ ini, r.InRange nnzA nnzL nnzU)
    (hrows : ∀ r ∈ rows, r.InRange nnzL nnzU) (A Lo Up : Array α) (b : Nat) (hb : blocks ≤ b) :
    sparseRow L nnzL (mozartFlat L blocks ini rows nnzA nnzL nnzU A (Lo, Up)).1 b = sparseRow L nnzL Lo b ∧
    sparseRow L nnzU (mozartFlat L blocks ini rows nnzA nnzL nnzU A (Lo, Up)).2 b = sparseRow L nnzU Up b := by
  obtain ⟨⟨_, fL⟩, ⟨_, fU⟩⟩ := mozartFlat_frame L blocks ini rows nnzA nnzL nnzU hini hrows A (Lo, Up)
  exact ⟨l3_sparseRow_padding fL b hb, l3_sparseRow_padding fU b hb⟩

end Mozart

/-! ### 2. in-place LU decompositions -/
section InPlace
variable {α : Type} [OfNat α 0] [OfNat α 1] [Sub α] [Mul α] [Div α]

omit [OfNat α 1] in
/-- **Lane theorem, Doolittle in place.** -/
theorem C13_doolittleInPlace_flat_eq_cell (L blocks : Nat) (rows : List DIRow) (nnz : Nat)
    (hrows : ∀ r ∈ rows, r.InRange nnz) (M : Array α) (hM : M.size = vectorSize L nnz blocks)
    (b : Nat) (hb : b < blocks) :
    sparseRow L nnz (doolittleInPlaceFlat L blocks rows nnz M) b
      = doolittleInPlaceCell rows (sparseRow L nnz M b) :=
  (doolittleInPlaceFlat_view L blocks rows nnz hrows M hM b hb).sparseRow_eq

omit [OfNat α 1] in
/-- **Padding lanes are not touched by the in-place Doolittle LU.** -/
theorem C13_doolittleInPlace_padding_untouched (L blocks : Nat) (rows : List DIRow) (nnz : Nat)
    (hrows : ∀ r ∈ rows, r.InRange nnz) (M : Array α) :
    (doolittleInPlaceFlat L blocks rows nnz M).size = M.size ∧
    ∀ x, (∀ b k, b < blocks → k < nnz → slot L nnz b k ≠ x) →
      rd (doolittleInPlaceFlat L blocks rows nnz M) x = rd M x :=
  doolittleInPlaceFlat_frame L blocks rows nnz hrows M

omit [OfNat α 1] in
theorem C13_doolittleInPlace_padding_block (L blocks : Nat) (rows : List DIRow) (nnz : Nat)
    (hrows : ∀ r ∈ rows, r.InRange nnz) (M : Array α) (b : Nat) (hb : blocks ≤ b) :
    sparseRow L nnz (doolittleInPlaceFlat L blocks rows nnz M) b = sparseRow L nnz M b :=
  l3_sparseRow_padding (doolittleInPlaceFlat_frame L blocks rows nnz hrows M).2 b hb

/-- **Lane theorem, Mozart in place.** -/
theorem C13_mozartInPlace_flat_eq_cell (L blocks : Nat) (rows : List MIRow) (nnz : Nat)
    (hrows : ∀ r ∈ rows, r.InRange nnz) (hdist : ∀ r ∈ rows, r.Distinct) (M : Array α)
    (hM : M.size = vectorSize L nnz blocks) (b : Nat) (hb : b < blocks) :
    sparseRow L nnz (mozartInPlaceFlat L blocks rows nnz M) b
      = mozartInPlaceCell rows (sparseRow L nnz M b) :=
  (mozartInPlaceFlat_view L blocks rows nnz hrows hdist M hM b hb).sparseRow_eq

/-- **Padding lanes are not touched by the in-place Mozart LU.** -/
theorem C13_mozartInPlace_padding_untouched (L blocks : Nat) (rows : List MIRow) (nnz : Nat)
    (hrows : ∀ r ∈ rows, r.InRange nnz) (M : Array α) :
    (mozartInPlaceFlat L blocks rows nnz M).size = M.size ∧
    ∀ x, (∀ b k, b < blocks → k < nnz → slot L nnz b k ≠ x) →
      rd (mozartInPlaceFlat L blocks rows nnz M) x = rd M x :=
  mozartInPlaceFlat_frame L blocks rows nnz hrows M

theorem C13_mozartInPlace_padding_block (L blocks : Nat) (rows : List MIRow) (nnz : Nat)
    (hrows : ∀ r ∈ rows, r.InRange nnz) (M : Array α) (b : Nat) (hb : blocks ≤ b) :
    sparseRow L nnz (mozartInPlaceFlat L blocks rows nnz M) b = sparseRow L nnz M b :=
  l3_sparseRow_padding (mozartInPlaceFlat_frame L blocks rows nnz hrows M).2 b hb

/-- **Block independence** of the three decompositions: the block of the result is a function of
    the block of the inputs — other blocks, their number, the layout, padding never matter. -/
theorem C13_lu3_cell_independence (L blocks L' blocks' : Nat) (b b' : Nat) (hb : b < blocks) (hb' : b' < blocks') :
    (∀ (rows : List DIRow) (nnz : Nat), (∀ r ∈ rows, r.InRange nnz) → ∀ M M' : Array α,
      M.size = vectorSize L nnz blocks → M'.size = vectorSize L' nnz blocks' →
      sparseRow L nnz M b = sparseRow L' nnz M' b' →
      sparseRow L nnz (doolittleInPlaceFlat L blocks rows nnz M) b
        = sparseRow L' nnz (doolittleInPlaceFlat L' blocks' rows nnz M') b') ∧
    (∀ (rows : List MIRow) (nnz : Nat), (∀ r ∈ rows, r.InRange nnz) → (∀ r ∈ rows, r.Distinct) →
      ∀ M M' : Array α, M.size = vectorSize L nnz blocks → M'.size = vectorSize L' nnz blocks' →
      sparseRow L nnz M b = sparseRow L' nnz M' b' →
      sparseRow L nnz (mozartInPlaceFlat L blocks rows nnz M) b
        = sparseRow L' nnz (mozartInPlaceFlat L' blocks' rows nnz M') b') ∧
    (∀ (ini : List MInit) (rows : List MRow) (nnzA nnzL nnzU : Nat),
      (∀ r ∈ ini, r.InRange nnzA nnzL nnzU) → (∀ r ∈ rows, r.InRange nnzL nnzU) →
      ∀ A Lo Up A' Lo' Up' : Array α, Lo.size = vectorSize L nnzL blocks → Up.size = vectorSize L nnzU blocks →
      Lo'.size = vectorSize L' nnzL blocks' → Up'.size = vectorSize L' nnzU blocks' →
      sparseRow L nnzA A b = sparseRow L' nnzA A' b' → sparseRow L nnzL Lo b = sparseRow L' nnzL Lo' b' →
      sparseRow L nnzU Up b = sparseRow L' nnzU Up' b' →
      (sparseRow L nnzL (mozartFlat L blocks ini rows nnzA nnzL nnzU A (Lo, Up)).1 b,
       sparseRow L nnzU (mozartFlat L blocks ini rows nnzA nnzL nnzU A (Lo, Up)).2 b)
        = (sparseRow L' nnzL (mozartFlat L' blocks' ini rows nnzA nnzL nnzU A' (Lo', Up')).1 b',
           sparseRow L' nnzU (mozartFlat L' blocks' ini rows nnzA nnzL nnzU A' (Lo', Up')).2 b')) := by
  refine ⟨?_, ?_, ?_⟩
  · intro rows nnz hrows M M' hM hM' hrow
    rw [C13_doolittleInPlace_flat_eq_cell L blocks rows nnz hrows M hM b hb,
      C13_doolittleInPlace_flat_eq_cell L' blocks' rows nnz hrows M' hM' b' hb', hrow]
  · intro rows nnz hrows hdist M M' hM hM' hrow
    rw [C13_mozartInPlace_flat_eq_cell L blocks rows nnz hrows hdist M hM b hb,
      C13_mozartInPlace_flat_eq_cell L' blocks' rows nnz hrows hdist M' hM' b' hb', hrow]
  · intro ini rows nnzA nnzL nnzU hini hrows A Lo Up A' Lo' Up' hLo hUp hLo' hUp' hA hL hU
    rw [C13_mozart_flat_eq_cell L blocks ini rows nnzA nnzL nnzU hini hrows A Lo Up hLo hUp b hb,
      C13_mozart_flat_eq_cell L' blocks' ini rows nnzA nnzL nnzU hini hrows A' Lo' Up' hLo' hUp' b' hb',
      hA, hL, hU]

end InPlace

/-! ### 3. in-place linear solve -/
section Solve
variable {α : Type} [OfNat α 0] [Sub α] [Mul α] [Div α]

/-- **Lane theorem, in-place solve.**  Both layouts, every cell count, every real cell: logical row
    `c` of the flat solve is `solveInPlaceCell` on logical block `c` of the factored matrix and
    logical row `c` of `x`.  (Forward rows: only the pairs must be in range.) -/
theorem C13_solveInPlace_flat_eq_cell (L nCells n : Nat) (fw bw : List SubRow) (nnz : Nat)
    (hfw : ∀ r ∈ fw, ∀ p ∈ r.pairs, p.1 < nnz ∧ p.2 < n) (hbw : ∀ r ∈ bw, r.InRange nnz n)
    (hfwl : fw.length ≤ n) (hbwl : bw.length ≤ n) (M x : Array α)
    (hx : x.size = (DenseShape.mk nCells n L).size) (c : Nat) (hc : c < nCells) :
    flatRow ⟨nCells, n, L⟩ (solveInPlaceFlat L nCells n fw bw nnz M x) c
      = solveInPlaceCell fw bw (sparseRow L nnz M c) (flatRow ⟨nCells, n, L⟩ x c) :=
  solveInPlaceFlat_cell L nCells n fw bw nnz hfw hbw hfwl hbwl M x hx c hc

/-- the same with the hypotheses in the shape of `C13_solve_flat_eq_cell` (`solverRows`) -/
theorem C13_solveInPlace_flat_eq_cell' (L nCells n : Nat) (fw bw : List SubRow) (nnz : Nat)
    (hfw : ∀ r ∈ fw, r.InRange nnz n) (hbw : ∀ r ∈ bw, r.InRange nnz n)
    (hfwl : fw.length = n) (hbwl : bw.length = n) (M x : Array α)
    (hx : x.size = (DenseShape.mk nCells n L).size) (c : Nat) (hc : c < nCells) :
    flatRow ⟨nCells, n, L⟩ (solveInPlaceFlat L nCells n fw bw nnz M x) c
      = solveInPlaceCell fw bw (sparseRow L nnz M c) (flatRow ⟨nCells, n, L⟩ x c) :=
  solveInPlaceFlat_cell L nCells n fw bw nnz (fun r hr => (hfw r hr).2) hbw (by omega) (by omega) M x hx c hc

/-- **Cell independence, in-place solve.** -/
theorem C13_solveInPlace_cell_independence (n : Nat) (fw bw : List SubRow) (nnz : Nat)
    (hfw : ∀ r ∈ fw, ∀ p ∈ r.pairs, p.1 < nnz ∧ p.2 < n) (hbw : ∀ r ∈ bw, r.InRange nnz n)
    (hfwl : fw.length ≤ n) (hbwl : bw.length ≤ n)
    (L nCells : Nat) (M x : Array α) (L' nCells' : Nat) (M' x' : Array α)
    (hx : x.size = (DenseShape.mk nCells n L).size) (hx' : x'.size = (DenseShape.mk nCells' n L').size)
    (c c' : Nat) (hc : c < nCells) (hc' : c' < nCells')
    (hMrow : sparseRow L nnz M c = sparseRow L' nnz M' c')
    (hxrow : flatRow ⟨nCells, n, L⟩ x c = flatRow ⟨nCells', n, L'⟩ x' c') :
    flatRow ⟨nCells, n, L⟩ (solveInPlaceFlat L nCells n fw bw nnz M x) c
      = flatRow ⟨nCells', n, L'⟩ (solveInPlaceFlat L' nCells' n fw bw nnz M' x') c' := by
  rw [C13_solveInPlace_flat_eq_cell L nCells n fw bw nnz hfw hbw hfwl hbwl M x hx c hc,
    C13_solveInPlace_flat_eq_cell L' nCells' n fw bw nnz hfw hbw hfwl hbwl M' x' hx' c' hc', hMrow, hxrow]

/-- the in-place solve keeps the storage size (padding lanes are written, from padding inputs) -/
theorem C13_solveInPlace_size (L nCells n : Nat) (fw bw : List SubRow) (hfwl : fw.length ≤ n)
    (hbwl : bw.length ≤ n) (nnz : Nat) (M x : Array α) :
    (solveInPlaceFlat L nCells n fw bw nnz M x).size = x.size :=
  solveInPlaceFlat_size L nCells n fw bw hfwl hbwl nnz M x

end Solve

/-! ### 4. AlphaMinusJacobian -/
section Alpha
variable {α : Type} [OfNat α 0] [Add α]

/-- **Lane theorem, `AlphaMinusJacobian`.**  Both layouts, every block count, every real block:
    logical block `b` of the flat result is logical block `b` of `J` with `alpha` added to the
    diagonal elements (one cell of `SolverCfg.alphaMinusJacobian`). -/
theorem C13_alpha_flat_eq_logical (L blocks nnz : Nat) (diag : List Nat) (hdiag : ∀ i ∈ diag, i < nnz)
    (J : Array α) (alpha : α) (hJ : J.size = vectorSize L nnz blocks) (b : Nat) (hb : b < blocks) :
    sparseRow L nnz (alphaMinusJacobianFlat L blocks nnz diag J alpha) b
      = diag.foldl (fun Jr i => wr Jr i (rd Jr i + alpha)) (sparseRow L nnz J b) :=
  alphaMinusJacobianFlat_cell L blocks nnz diag hdiag J alpha hJ b hb

/-- all blocks at once: the flat kernel is `SolverCfg.alphaMinusJacobian` on the logical blocks -/
theorem C13_alpha_flat_eq_cfg (s : SolverCfg α) (L blocks nnz : Nat) (hdiag : ∀ i ∈ s.diag, i < nnz)
    (J : Array α) (alpha : α) (hJ : J.size = vectorSize L nnz blocks) :
    sparseRows L nnz blocks (alphaMinusJacobianFlat L blocks nnz s.diag J alpha)
      = s.alphaMinusJacobian (sparseRows L nnz blocks J) alpha :=
  alphaMinusJacobianFlat_eq_cfg s L blocks nnz hdiag J alpha hJ

/-- **Frame.**  The size is kept and only diagonal slots are written: of the real blocks for the
    standard layout; of all `L` lanes of every group — the padding blocks
    `blocks ≤ b < ⌈blocks/L⌉·L` included — for the vector layouts. -/
theorem C13_alpha_frame (L blocks nnz : Nat) (diag : List Nat) (J : Array α) (alpha : α) :
    (alphaMinusJacobianFlat L blocks nnz diag J alpha).size = J.size ∧
    ∀ x, (∀ b k, b < paddedBlocks L blocks → k ∈ diag → slot L nnz b k ≠ x) →
      rd (alphaMinusJacobianFlat L blocks nnz diag J alpha) x = rd J x :=
  ⟨alphaMinusJacobianFlat_size L blocks nnz diag J alpha,
    fun x hx => alphaMinusJacobianFlat_frame L blocks nnz diag J alpha x hx⟩

/-- **The padding blocks are written** (vector layouts): the lane theorem holds for every block of
    every group, `b < ⌈blocks/L⌉·L`.  By the lane theorems of the consumers (LU: padding lanes not
    processed) these values never reach a real block. -/
theorem C13_alpha_padding_written (L blocks nnz : Nat) (diag : List Nat) (hdiag : ∀ i ∈ diag, i < nnz)
    (J : Array α) (alpha : α) (hJ : J.size = vectorSize L nnz blocks) (b : Nat)
    (hb : b < paddedBlocks L blocks) :
    sparseRow L nnz (alphaMinusJacobianFlat L blocks nnz diag J alpha) b
      = diag.foldl (fun Jr i => wr Jr i (rd Jr i + alpha)) (sparseRow L nnz J b) := by
  rw [← alphaMinusJacobianFlat_padded L blocks nnz diag J alpha]
  exact alphaMinusJacobianFlat_cell L (paddedBlocks L blocks) nnz diag hdiag J alpha
    (by rw [vectorSize_paddedBlocks]; exact hJ) b hb

end Alpha

/-! ### 5. the built tables satisfy the hypotheses -/

/-- **The range hypotheses hold for every configuration the builder produces**: for a well-formed
    Jacobian element set with a full diagonal, either storage order, every layout and each of the
    four LU variants, every row of every table of `LinAlg.build` is in range w.r.t. the sizes of the
    built patterns (and `MIRow.Distinct` holds), and the substitution tables have `n` rows. -/
theorem C13_tables_in_range {n : Nat} {set : List Pair} (hw : WF n set) (hdiag : ∀ i, i < n → (i, i) ∈ set)
    (csc : Bool) (L : Nat) (kind : LUKind) :
    let la := LinAlg.build kind (Pattern.mk' n csc L set)
    (∀ r ∈ la.dRows, r.InRange la.A.nnz la.Lp.nnz la.Up.nnz) ∧
    (∀ r ∈ la.mInit, r.InRange la.A.nnz la.Lp.nnz la.Up.nnz) ∧
    (∀ r ∈ la.mRows, r.InRange la.Lp.nnz la.Up.nnz) ∧
    (∀ r ∈ la.diRows, r.InRange la.A.nnz) ∧
    (∀ r ∈ la.miRows, r.InRange la.A.nnz ∧ r.Distinct) ∧
    (∀ r ∈ la.fw, r.InRange la.Lp.nnz n) ∧ (∀ r ∈ la.bw, r.InRange la.Up.nnz n) ∧
    la.fw.length = n ∧ la.bw.length = n := by
  intro la
  have h := tablesInRange_build hw hdiag csc L kind
  exact ⟨h.dRows, h.mInit, h.mRows, h.diRows, h.miRows, h.fw, h.bw, h.fwLen, h.bwLen⟩

section Built
variable {α : Type} [OfNat α 0] [OfNat α 1] [Sub α] [Mul α] [Div α]

/-- the lane theorem for the built Doolittle tables (C13b), no table hypothesis left -/
theorem C13_build_doolittle_flat_eq_cell {n : Nat} {set : List Pair} (hw : WF n set)
    (hdiag : ∀ i, i < n → (i, i) ∈ set) (csc : Bool) (L0 : Nat) (L blocks : Nat) (A Lo Up : Array α) :
    let la := LinAlg.build .doolittle (Pattern.mk' n csc L0 set)
    Lo.size = vectorSize L la.Lp.nnz blocks → Up.size = vectorSize L la.Up.nnz blocks → ∀ b, b < blocks →
    (sparseRow L la.Lp.nnz (doolittleFlat L blocks la.dRows la.A.nnz la.Lp.nnz la.Up.nnz A (Lo, Up)).1 b,
     sparseRow L la.Up.nnz (doolittleFlat L blocks la.dRows la.A.nnz la.Lp.nnz la.Up.nnz A (Lo, Up)).2 b)
      = doolittleCell la.dRows (sparseRow L la.A.nnz A b) (sparseRow L la.Lp.nnz Lo b, sparseRow L la.Up.nnz Up b) := by
  intro la hLo hUp b hb
  obtain ⟨hL, hU⟩ := doolittleFlat_views L blocks la.dRows la.A.nnz la.Lp.nnz la.Up.nnz
    (tablesInRange_build hw hdiag csc L0 .doolittle).dRows A Lo Up hLo hUp b hb
  exact Prod.ext hL.sparseRow_eq hU.sparseRow_eq

theorem C13_build_mozart_flat_eq_cell {n : Nat} {set : List Pair} (hw : WF n set)
    (hdiag : ∀ i, i < n → (i, i) ∈ set) (csc : Bool) (L0 : Nat) (L blocks : Nat) (A Lo Up : Array α) :
    let la := LinAlg.build .mozart (Pattern.mk' n csc L0 set)
    Lo.size = vectorSize L la.Lp.nnz blocks → Up.size = vectorSize L la.Up.nnz blocks → ∀ b, b < blocks →
    (sparseRow L la.Lp.nnz (mozartFlat L blocks la.mInit la.mRows la.A.nnz la.Lp.nnz la.Up.nnz A (Lo, Up)).1 b,
     sparseRow L la.Up.nnz (mozartFlat L blocks la.mInit la.mRows la.A.nnz la.Lp.nnz la.Up.nnz A (Lo, Up)).2 b)
      = mozartCell la.mInit la.mRows (sparseRow L la.A.nnz A b)
          (sparseRow L la.Lp.nnz Lo b, sparseRow L la.Up.nnz Up b) := by
  intro la hLo hUp b hb
  have h := tablesInRange_build hw hdiag csc L0 .mozart
  exact C13_mozart_flat_eq_cell L blocks la.mInit la.mRows la.A.nnz la.Lp.nnz la.Up.nnz h.mInit h.mRows
    A Lo Up hLo hUp b hb

omit [OfNat α 1] in
theorem C13_build_doolittleInPlace_flat_eq_cell {n : Nat} {set : List Pair} (hw : WF n set)
    (hdiag : ∀ i, i < n → (i, i) ∈ set) (csc : Bool) (L0 : Nat) (L blocks : Nat) (M : Array α) :
    let la := LinAlg.build .doolittleInPlace (Pattern.mk' n csc L0 set)
    M.size = vectorSize L la.A.nnz blocks → ∀ b, b < blocks →
    sparseRow L la.A.nnz (doolittleInPlaceFlat L blocks la.diRows la.A.nnz M) b
      = doolittleInPlaceCell la.diRows (sparseRow L la.A.nnz M b) := by
  intro la hM b hb
  exact C13_doolittleInPlace_flat_eq_cell L blocks la.diRows la.A.nnz
    (tablesInRange_build hw hdiag csc L0 .doolittleInPlace).diRows M hM b hb

theorem C13_build_mozartInPlace_flat_eq_cell {n : Nat} {set : List Pair} (hw : WF n set)
    (hdiag : ∀ i, i < n → (i, i) ∈ set) (csc : Bool) (L0 : Nat) (L blocks : Nat) (M : Array α) :
    let la := LinAlg.build .mozartInPlace (Pattern.mk' n csc L0 set)
    M.size = vectorSize L la.A.nnz blocks → ∀ b, b < blocks →
    sparseRow L la.A.nnz (mozartInPlaceFlat L blocks la.miRows la.A.nnz M) b
      = mozartInPlaceCell la.miRows (sparseRow L la.A.nnz M b) := by
  intro la hM b hb
  have h := tablesInRange_build hw hdiag csc L0 .mozartInPlace
  exact C13_mozartInPlace_flat_eq_cell L blocks la.miRows la.A.nnz (fun r hr => (h.miRows r hr).1)
    (fun r hr => (h.miRows r hr).2) M hM b hb

omit [OfNat α 1] in
/-- the solve with separate `L`, `U` (C13b) for the built substitution tables, any kind -/
theorem C13_build_solve_flat_eq_cell {n : Nat} {set : List Pair} (hw : WF n set)
    (hdiag : ∀ i, i < n → (i, i) ∈ set) (csc : Bool) (L0 : Nat) (kind : LUKind) (L nCells : Nat)
    (Lo Up x : Array α) (hx : x.size = (DenseShape.mk nCells n L).size) (c : Nat) (hc : c < nCells) :
    let la := LinAlg.build kind (Pattern.mk' n csc L0 set)
    flatRow ⟨nCells, n, L⟩ (solveFlat L nCells n la.fw la.bw la.Lp.nnz la.Up.nnz Lo Up x) c
      = solveCell la.fw la.bw (sparseRow L la.Lp.nnz Lo c) (sparseRow L la.Up.nnz Up c)
          (flatRow ⟨nCells, n, L⟩ x c) := by
  intro la
  have h := tablesInRange_build hw hdiag csc L0 kind
  exact solveFlat_cell L nCells n la.fw la.bw la.Lp.nnz la.Up.nnz h.fw h.bw (Nat.le_of_eq h.fwLen)
    (Nat.le_of_eq h.bwLen) Lo Up x hx c hc

omit [OfNat α 1] in
/-- the in-place solve for the built substitution tables of the in-place kinds -/
theorem C13_build_solveInPlace_flat_eq_cell {n : Nat} {set : List Pair} (hw : WF n set)
    (hdiag : ∀ i, i < n → (i, i) ∈ set) (csc : Bool) (L0 : Nat) (kind : LUKind) (hk : kind.inPlace = true)
    (L nCells : Nat) (M x : Array α) (hx : x.size = (DenseShape.mk nCells n L).size) (c : Nat)
    (hc : c < nCells) :
    let la := LinAlg.build kind (Pattern.mk' n csc L0 set)
    flatRow ⟨nCells, n, L⟩ (solveInPlaceFlat L nCells n la.fw la.bw la.A.nnz M x) c
      = solveInPlaceCell la.fw la.bw (sparseRow L la.A.nnz M c) (flatRow ⟨nCells, n, L⟩ x c) := by
  intro la
  have h := tablesInRange_build hw hdiag csc L0 kind
  cases kind with
  | doolittle => cases hk
  | mozart => cases hk
  | doolittleInPlace =>
    exact solveInPlaceFlat_cell L nCells n la.fw la.bw la.A.nnz (fun r hr => (h.fw r hr).2) h.bw
      (Nat.le_of_eq h.fwLen) (Nat.le_of_eq h.bwLen) M x hx c hc
  | mozartInPlace =>
    exact solveInPlaceFlat_cell L nCells n la.fw la.bw la.A.nnz (fun r hr => (h.fw r hr).2) h.bw
      (Nat.le_of_eq h.fwLen) (Nat.le_of_eq h.bwLen) M x hx c hc

end Built

/-! ### instances: `L = 3`, 4 blocks / cells (one full group + a partial group with two padding lanes)

the tables the model's builder produces for the 3x3 pattern `{(0,0),(0,1),(1,0),(1,1),(2,1),(2,2)}`
(no fill-in: `nnzA = 6`, `nnzL = 5`, `nnzU = 4`; in place: `nnz = 6`) -/
namespace C13cEx

def exPat : Pattern := Pattern.mk' 3 false 3 [(0, 0), (0, 1), (1, 0), (1, 1), (2, 1), (2, 2)]
def exM : LinAlg := LinAlg.build .mozart exPat
def exDI : LinAlg := LinAlg.build .doolittleInPlace exPat
def exMI : LinAlg := LinAlg.build .mozartInPlace exPat

example : (exM.A.nnz, exM.Lp.nnz, exM.Up.nnz, exDI.A.nnz, exMI.A.nnz) = (6, 5, 4, 6, 6) := by decide +kernel

/-- the built tables satisfy the range hypotheses (checked; also instances of `C13_tables_in_range`) -/
theorem exMInit_inRange : ∀ r ∈ exM.mInit, r.InRange 6 5 4 := by decide +kernel
theorem exMRows_inRange : ∀ r ∈ exM.mRows, r.InRange 5 4 := by decide +kernel
theorem exDIRows_inRange : ∀ r ∈ exDI.diRows, r.InRange 6 := by decide +kernel
theorem exMIRows_inRange : ∀ r ∈ exMI.miRows, r.InRange 6 := by decide +kernel
theorem exMIRows_distinct : ∀ r ∈ exMI.miRows, r.Distinct := by decide +kernel
theorem exFw_inRange : ∀ r ∈ exMI.fw, r.InRange 6 3 := by decide +kernel
theorem exBw_inRange : ∀ r ∈ exMI.bw, r.InRange 6 3 := by decide +kernel
example : exMI.fw.length = 3 ∧ exMI.bw.length = 3 := by decide +kernel

example : ∀ r ∈ exMI.miRows, r.InRange exMI.A.nnz ∧ r.Distinct :=
  (C13_tables_in_range (n := 3) (set := [(0, 0), (0, 1), (1, 0), (1, 1), (2, 1), (2, 2)])
    ⟨by unfold PairSorted; decide, by decide⟩ (by decide) false 3 .mozartInPlace).2.2.2.2.1

/-- the in-place Mozart tables `⟨a_ii, [a_ji], [⟨a_ik, [(a_jk, a_ji)]⟩]⟩`: stage 0 has `a_ii = 0`,
    column `a_ji = [2]`, one `k` with `a_ik = 1` and the pair `(a_jk, a_ji) = (3, 2)` -/
example : (exMI.miRows == [⟨0, [2], [⟨1, [(3, 2)]⟩]⟩, ⟨3, [4], []⟩, ⟨5, [], []⟩]) = true := by decide +kernel

example : vectorSize 3 6 4 = 36 ∧ vectorSize 3 5 4 = 30 ∧ vectorSize 3 4 4 = 24 := by decide

/-- at `Float` -/
example (A Lo Up : Array Float) (hLo : Lo.size = 30) (hUp : Up.size = 24) (b : Nat) (hb : b < 4) :
    (sparseRow 3 5 (mozartFlat 3 4 exM.mInit exM.mRows 6 5 4 A (Lo, Up)).1 b,
     sparseRow 3 4 (mozartFlat 3 4 exM.mInit exM.mRows 6 5 4 A (Lo, Up)).2 b)
      = mozartCell exM.mInit exM.mRows (sparseRow 3 6 A b) (sparseRow 3 5 Lo b, sparseRow 3 4 Up b) :=
  C13_mozart_flat_eq_cell 3 4 exM.mInit exM.mRows 6 5 4 exMInit_inRange exMRows_inRange A Lo Up
    (by rw [hLo]; decide) (by rw [hUp]; decide) b hb

example (M : Array Float) (hM : M.size = 36) (b : Nat) (hb : b < 4) :
    sparseRow 3 6 (doolittleInPlaceFlat 3 4 exDI.diRows 6 M) b
      = doolittleInPlaceCell exDI.diRows (sparseRow 3 6 M b) :=
  C13_doolittleInPlace_flat_eq_cell 3 4 exDI.diRows 6 exDIRows_inRange M (by rw [hM]; decide) b hb

example (M : Array Float) (hM : M.size = 36) (b : Nat) (hb : b < 4) :
    sparseRow 3 6 (mozartInPlaceFlat 3 4 exMI.miRows 6 M) b
      = mozartInPlaceCell exMI.miRows (sparseRow 3 6 M b) :=
  C13_mozartInPlace_flat_eq_cell 3 4 exMI.miRows 6 exMIRows_inRange exMIRows_distinct M (by rw [hM]; decide) b hb

example (M x : Array Float) (hx : x.size = 18) (c : Nat) (hc : c < 4) :
    flatRow ⟨4, 3, 3⟩ (solveInPlaceFlat 3 4 3 exMI.fw exMI.bw 6 M x) c
      = solveInPlaceCell exMI.fw exMI.bw (sparseRow 3 6 M c) (flatRow ⟨4, 3, 3⟩ x c) :=
  C13_solveInPlace_flat_eq_cell' 3 4 3 exMI.fw exMI.bw 6 exFw_inRange exBw_inRange (by decide +kernel)
    (by decide +kernel) M x (by rw [hx]; decide) c hc

example (J : Array Float) (alpha : Float) (hJ : J.size = 36) (b : Nat) (hb : b < 4) :
    sparseRow 3 6 (alphaMinusJacobianFlat 3 4 6 [0, 3, 5] J alpha) b
      = [0, 3, 5].foldl (fun Jr i => wr Jr i (rd Jr i + alpha)) (sparseRow 3 6 J b) :=
  C13_alpha_flat_eq_logical 3 4 6 [0, 3, 5] (by decide) J alpha (by rw [hJ]; decide) b hb

/-- at `Rat`, evaluated.  Block `b` of `A` is `[[2, 1, 0], [b + 1, 3, 0], [0, 1, 4]]`; padding `7` -/
def exA : Array Rat :=
  #[2, 2, 2, 1, 1, 1, 1, 2, 3, 3, 3, 3, 1, 1, 1, 4, 4, 4,   2, 7, 7, 1, 7, 7, 4, 7, 7, 3, 7, 7, 1, 7, 7, 4, 7, 7]
def exLo : Array Rat := Array.replicate 30 5
def exUp : Array Rat := Array.replicate 24 6
def exLo' : Array Rat :=
  #[1, 1, 1, 1/2, 1, 3/2, 1, 1, 1, 2/5, 1/2, 2/3, 1, 1, 1,   1, 5, 5, 2, 5, 5, 1, 5, 5, 1, 5, 5, 1, 5, 5]
def exUp' : Array Rat :=
  #[2, 2, 2, 1, 1, 1, 5/2, 2, 3/2, 4, 4, 4,   2, 6, 6, 1, 6, 6, 1, 6, 6, 4, 6, 6]
/-- the in-place factors `L - I + U` -/
def exLU : Array Rat :=
  #[2, 2, 2, 1, 1, 1, 1/2, 1, 3/2, 5/2, 2, 3/2, 2/5, 1/2, 2/3, 4, 4, 4,
    2, 7, 7, 1, 7, 7, 2, 7, 7, 1, 7, 7, 1, 7, 7, 4, 7, 7]

example : exPat.diagRanks = [0, 3, 5] := by decide +kernel

/-- Mozart gives the same factors as Doolittle (C13b); the padding lanes (lanes 1, 2 of group 1)
    keep their old content `5` / `6` -/
example : mozartFlat 3 4 exM.mInit exM.mRows 6 5 4 exA (exLo, exUp) = (exLo', exUp') := by decide +kernel
example : mozartCell exM.mInit exM.mRows (sparseRow 3 6 exA 3) (sparseRow 3 5 exLo 3, sparseRow 3 4 exUp 3)
    = (#[1, 2, 1, 1, 1], #[2, 1, 1, 4]) := by decide +kernel

/-- in place: padding lanes keep the padding content `7` -/
example : doolittleInPlaceFlat 3 4 exDI.diRows 6 exA = exLU := by decide +kernel
example : mozartInPlaceFlat 3 4 exMI.miRows 6 exA = exLU := by decide +kernel
example : sparseRow 3 6 exLU 3 = #[2, 1, 2, 1, 1, 4] := by decide +kernel
example : mozartInPlaceCell exMI.miRows (sparseRow 3 6 exA 3) = #[2, 1, 2, 1, 1, 4] := by decide +kernel
example : doolittleInPlaceCell exDI.diRows (sparseRow 3 6 exA 3) = #[2, 1, 2, 1, 1, 4] := by decide +kernel

/-- right-hand sides (2 x 3 x 3): cell `c` has `x = (c + 1, 2, 3)`, padding `1` -/
def exX : Array Rat := #[1, 2, 3, 2, 2, 2, 3, 3, 3,   4, 1, 1, 2, 1, 1, 3, 1, 1]

/-- the in-place solve writes the padding lanes (`-6/7`, `43/7`) from the padding inputs -/
example : solveInPlaceFlat 3 4 3 exMI.fw exMI.bw 6 exLU exX
    = #[1/5, 1, 7/3, 3/5, 0, -5/3, 3/5, 3/4, 7/6,   5, 1, 1, -6, -6/7, -6/7, 9/4, 43/7, 43/7] := by
  decide +kernel
example : flatRow ⟨4, 3, 3⟩ (solveInPlaceFlat 3 4 3 exMI.fw exMI.bw 6 exLU exX) 3 = #[5, -6, 9/4] := by
  decide +kernel
example : solveInPlaceCell exMI.fw exMI.bw (sparseRow 3 6 exLU 3) (flatRow ⟨4, 3, 3⟩ exX 3) = #[5, -6, 9/4] := by
  decide +kernel

/-- `AlphaMinusJacobian` with `alpha = 10`: the diagonal slots of the padding lanes are written
    (`7 + 10 = 17`), the other padding slots keep `7` -/
example : alphaMinusJacobianFlat 3 4 6 [0, 3, 5] exA (10 : Rat)
    = #[12, 12, 12, 1, 1, 1, 1, 2, 3, 13, 13, 13, 1, 1, 1, 14, 14, 14,
        12, 17, 17, 1, 7, 7, 4, 7, 7, 13, 17, 17, 1, 7, 7, 14, 17, 17] := by decide +kernel
example : paddedBlocks 3 4 = 6 := by decide

end C13cEx

end Micm

#print axioms Micm.C13_mozart_flat_eq_cell
#print axioms Micm.C13_mozart_padding_untouched
#print axioms Micm.C13_mozart_padding_block
#print axioms Micm.C13_doolittleInPlace_flat_eq_cell
#print axioms Micm.C13_doolittleInPlace_padding_untouched
#print axioms Micm.C13_doolittleInPlace_padding_block
#print axioms Micm.C13_mozartInPlace_flat_eq_cell
#print axioms Micm.C13_mozartInPlace_padding_untouched
#print axioms Micm.C13_mozartInPlace_padding_block
#print axioms Micm.C13_lu3_cell_independence
#print axioms Micm.C13_solveInPlace_flat_eq_cell
#print axioms Micm.C13_solveInPlace_flat_eq_cell'
#print axioms Micm.C13_solveInPlace_cell_independence
#print axioms Micm.C13_solveInPlace_size
#print axioms Micm.C13_alpha_flat_eq_logical
#print axioms Micm.C13_alpha_flat_eq_cfg
#print axioms Micm.C13_alpha_frame
#print axioms Micm.C13_alpha_padding_written
#print axioms Micm.C13_tables_in_range
#print axioms Micm.C13_build_doolittle_flat_eq_cell
#print axioms Micm.C13_build_mozart_flat_eq_cell
#print axioms Micm.C13_build_doolittleInPlace_flat_eq_cell
#print axioms Micm.C13_build_mozartInPlace_flat_eq_cell
#print axioms Micm.C13_build_solve_flat_eq_cell
#print axioms Micm.C13_build_solveInPlace_flat_eq_cell
