/-
C07 (backward-Euler part) — the step-size schedule of `BackwardEuler::Solve`.

Subject: `beStep` of `Micm/Model/BackwardEuler.lean` (one `beStep` = one Newton iteration; the tail of
an outer iteration is executed by the `beStep` that makes its last Newton iteration).  All theorems
are for an arbitrary carrier: the schedule is pure control flow.  Vocabulary
(`Micm/Lemmas/Special.lean`, `Lemmas/BackwardEuler.lean`):
* `beHead o T r`   the state after the `while (t < time_step)` test;
* `beConv … r`     the value of `converged` after this Newton iteration (`false` when `iterations = 0`);
* `cmin o a b`     `std::min(a, b)`;  `BECtlInv p r` the control invariants of the loop.
-/
import Micm.Lemmas.BackwardEuler

namespace Micm
set_option linter.unusedSectionVars false

section Any
variable {α : Type} [OfNat α 0] [OfNat α 1] [OfNat α 2] [Add α] [Sub α] [Mul α] [Div α]
variable (o : Ops α) (s : SolverCfg α) (p : BEParams α) (kc : Mat α) (atol : Array α) (rtol : α)
    (T : α)

/-- **failure, retried**: the outer iteration ends un-converged (`converged = false` and
    `iterations + 1 ≥ max_number_of_steps`) with `n_convergence_failures < reductions.size()`.
    Then `H ← min(H · reductions[n_convergence_failures], time_step − t)`, the failure counter is
    incremented, `n_successful_integrations ← 0`, `t` is unchanged, `Yn1 ← Yn`, the loop goes on. -/
theorem C07_be_schedule_retry (r : BEState α) (hd : (beHead o T r).done = false)
    (hc : beConv o s p kc atol rtol r = false) (hm : ¬ r.iterations + 1 < p.maxSteps)
    (hf : r.nFail < p.reductions.length) :
    let r' := beStep o s p kc atol rtol T r
    r'.h = cmin o (r.h * p.reductions[r.nFail]) (T - r.t) ∧ r'.t = r.t ∧
    r'.nFail = r.nFail + 1 ∧ r'.nSucc = 0 ∧ r'.stats.rejected = r.stats.rejected + 1 ∧
    r'.stats.accepted = r.stats.accepted ∧ r'.done = false ∧ r'.iterations = 0 ∧
    r'.Yn1 = r.Yn ∧ r'.Yn = r.Yn := by
  intro r'
  simp only [r', beStep_of_retry o s p kc atol rtol T r hd hc hm hf]
  simp [beRetry, beNewton, hd, List.getElem?_eq_getElem hf]

/-- **failure, given up**: the outer iteration ends un-converged with
    `n_convergence_failures ≥ reductions.size()`.  Then `t ← t + H` (the un-converged step is
    accepted), the status is `AcceptingUnconvergedIntegration`, the loop ends; `H` is not changed. -/
theorem C07_be_schedule_giveUp (r : BEState α) (hd : (beHead o T r).done = false)
    (hc : beConv o s p kc atol rtol r = false) (hm : ¬ r.iterations + 1 < p.maxSteps)
    (hf : p.reductions.length ≤ r.nFail) :
    let r' := beStep o s p kc atol rtol T r
    r'.status = .acceptingUnconvergedIntegration ∧ r'.done = true ∧ r'.t = r.t + r.h ∧ r'.h = r.h ∧
    r'.stats.rejected = r.stats.rejected + 1 ∧ r'.stats.accepted = r.stats.accepted ∧
    r'.Yn = r.Yn ∧ r'.Yn1 = beNewY o s kc r := by
  intro r'
  simp only [r', beStep_of_giveUp o s p kc atol rtol T r hd hc hm hf]
  simp [beGiveUp, beNewton]

/-- **success**: `converged = true`.  Then `t ← t + H`, `Yn ← Yn1`, the status is `Converged`;
    `n_successful_integrations` is incremented and, when it reaches 2, reset to 0 and `H` doubled;
    finally `H ← min(H, time_step − t)` with the *new* `t`.  The failure counter is not reset. -/
theorem C07_be_schedule_accept (r : BEState α) (hd : (beHead o T r).done = false)
    (hc : beConv o s p kc atol rtol r = true) :
    let r' := beStep o s p kc atol rtol T r
    r'.t = r.t + r.h ∧
    r'.h = cmin o (if r.nSucc + 1 ≥ 2 then r.h * 2 else r.h) (T - (r.t + r.h)) ∧
    r'.nSucc = (if r.nSucc + 1 ≥ 2 then 0 else r.nSucc + 1) ∧ r'.nFail = r.nFail ∧
    r'.status = .converged ∧ r'.stats.accepted = r.stats.accepted + 1 ∧
    r'.stats.rejected = r.stats.rejected ∧ r'.done = false ∧ r'.iterations = 0 ∧
    r'.Yn1 = beNewY o s kc r ∧ r'.Yn = beNewY o s kc r := by
  intro r'
  simp only [r', beStep_of_accept o s p kc atol rtol T r hd hc]
  simp [beAccept_eq, beNewton, hd]

/-- after one success `H` is unchanged (then clipped), after two consecutive successes doubled
    (then clipped): `n_successful_integrations ∈ {0, 1}` throughout the loop (`BECtlInv.nSucc`), so
    the two cases of `C07_be_schedule_accept` are `nSucc = 0` and `nSucc = 1` -/
theorem C07_be_schedule_double (r : BEState α) (hi : BECtlInv p r)
    (hd : (beHead o T r).done = false) (hc : beConv o s p kc atol rtol r = true) :
    (r.nSucc = 0 ∧ (beStep o s p kc atol rtol T r).h = cmin o r.h (T - (r.t + r.h)) ∧
      (beStep o s p kc atol rtol T r).nSucc = 1) ∨
    (r.nSucc = 1 ∧ (beStep o s p kc atol rtol T r).h = cmin o (r.h * 2) (T - (r.t + r.h)) ∧
      (beStep o s p kc atol rtol T r).nSucc = 0) := by
  obtain ⟨_, h2, h3, _⟩ := C07_be_schedule_accept o s p kc atol rtol T r hd hc
  have := hi.nSucc
  have h01 : r.nSucc = 0 ∨ r.nSucc = 1 := by omega
  rcases h01 with h | h
  · left; rw [h2, h3, h]; simp
  · right; rw [h2, h3, h]; simp

/-- **the `k`-th failure uses `reductions[k]`**: in every not-`done` loop state reached from the
    initial state of `beSolve` the failure counter equals `rejected` (it is never reset), so the
    failed outer iteration number `k = rejected` (counting from 0) multiplies `H` by `reductions[k]`
    if `k < reductions.size()` and gives up otherwise -/
theorem C07_be_schedule_kth (r : BEState α) (hi : BECtlInv p r) (hd0 : r.done = false) :
    r.nFail = r.stats.rejected ∧ r.nFail ≤ p.reductions.length := by
  have hna : r.status ≠ .acceptingUnconvergedIntegration := fun h => by
    rw [hi.accDone h] at hd0; cases hd0
  have := hi.rej
  simp only [hna, if_false] at this
  exact ⟨by omega, hi.nFail⟩

/-- the control invariants hold in every loop state of `beSolve` (here: where the loop stops; they
    are preserved by every iteration, `BECtlInv_step`) -/
theorem C07_be_invariants (Y : Mat α) (sc : Scratch α) (fuel : Nat) :
    BECtlInv p (beLoop o s p kc atol rtol T fuel (beInit (beInitialH o p T) Y sc)) :=
  BECtlInv_loop o s p kc atol rtol T fuel _ (BECtlInv_init p _ Y sc)

/-- **the first Newton iteration never tests convergence**: when `iterations = 0` the iteration is
    neither accepted nor (if `max_number_of_steps > 1`) rejected; it just makes the Newton update -/
theorem C07_be_inner_first (r : BEState α) (h0 : r.iterations = 0)
    (hd : (beHead o T r).done = false) :
    beConv o s p kc atol rtol r = false ∧
    (1 < p.maxSteps → beStep o s p kc atol rtol T r = beNewton o s kc (beHead o T r) ∧
      (beStep o s p kc atol rtol T r).iterations = 1 ∧
      (beStep o s p kc atol rtol T r).stats.accepted = r.stats.accepted ∧
      (beStep o s p kc atol rtol T r).stats.rejected = r.stats.rejected) := by
  have hc := beConv_first o s p kc atol rtol r h0
  refine ⟨hc, fun hm => ?_⟩
  have e := beStep_of_cont o s p kc atol rtol T r hd hc (by omega)
  rw [e]; simp [beNewton, h0]

/-- **the inner loop makes at most `max(1, max_number_of_steps)` Newton iterations**: an iteration
    with `iterations + 1 ≥ max_number_of_steps` always ends the outer iteration, and inside an outer
    iteration `iterations < max_number_of_steps` (`BECtlInv.iters`) -/
theorem C07_be_inner_bound (r : BEState α) (hd : (beHead o T r).done = false)
    (hm : ¬ r.iterations + 1 < p.maxSteps) :
    (beStep o s p kc atol rtol T r).iterations = 0 ∧
    (beStep o s p kc atol rtol T r).stats.accepted + (beStep o s p kc atol rtol T r).stats.rejected
      = r.stats.accepted + r.stats.rejected + 1 := by
  have hc := beStep_cases o s p kc atol rtol T r
  generalize beStep o s p kc atol rtol T r = r' at hc ⊢
  cases hc with
  | exit h => rw [hd] at h; cases h
  | cont _ _ h => exact absurd h hm
  | giveUp _ _ _ _ => simp [beGiveUp, beNewton]; omega
  | retry _ _ _ _ => simp [beRetry, beNewton]; omega
  | accept _ _ => simp [beAccept_eq, beNewton]; omega

/-- a continuing iteration (`converged = false`, `iterations + 1 < max_number_of_steps`) changes
    neither `t`, `H`, the counters of successes/failures nor `Yn` -/
theorem C07_be_inner_continue (r : BEState α) (hd : (beHead o T r).done = false)
    (hc : beConv o s p kc atol rtol r = false) (hm : r.iterations + 1 < p.maxSteps) :
    let r' := beStep o s p kc atol rtol T r
    r'.t = r.t ∧ r'.h = r.h ∧ r'.nSucc = r.nSucc ∧ r'.nFail = r.nFail ∧ r'.Yn = r.Yn ∧
    r'.iterations = r.iterations + 1 ∧ r'.Yn1 = beNewY o s kc r := by
  intro r'
  simp only [r', beStep_of_cont o s p kc atol rtol T r hd hc hm]
  simp [beNewton]

/-- **C07 for backward Euler, summary**: an iteration that passes the loop head does exactly one of
    (a) continue the inner loop (nothing of the schedule changes),
    (b) `k`-th failure with `k = n_convergence_failures < reductions.size()`:
        `H ← min(H·reductions[k], time_step − t)`, `t` unchanged, loop goes on,
    (c) failure with `n_convergence_failures ≥ reductions.size()`:
        `AcceptingUnconvergedIntegration`, `t ← t + H`, loop ends,
    (d) success: `t ← t + H`, `H` doubled iff this is the second success in a row, then
        `H ← min(H, time_step − t)`; status `Converged`. -/
theorem C07_be_schedule (r : BEState α) (hd : (beHead o T r).done = false) :
    let r' := beStep o s p kc atol rtol T r
    (beConv o s p kc atol rtol r = false ∧ r.iterations + 1 < p.maxSteps ∧
      r'.t = r.t ∧ r'.h = r.h ∧ r'.nSucc = r.nSucc ∧ r'.nFail = r.nFail ∧
      r'.iterations = r.iterations + 1) ∨
    (∃ hf : r.nFail < p.reductions.length,
      beConv o s p kc atol rtol r = false ∧ ¬ r.iterations + 1 < p.maxSteps ∧
      r'.h = cmin o (r.h * p.reductions[r.nFail]) (T - r.t) ∧ r'.t = r.t ∧
      r'.nFail = r.nFail + 1 ∧ r'.nSucc = 0 ∧ r'.done = false ∧ r'.iterations = 0) ∨
    (p.reductions.length ≤ r.nFail ∧
      beConv o s p kc atol rtol r = false ∧ ¬ r.iterations + 1 < p.maxSteps ∧
      r'.status = .acceptingUnconvergedIntegration ∧ r'.done = true ∧ r'.t = r.t + r.h ∧ r'.h = r.h) ∨
    (beConv o s p kc atol rtol r = true ∧ r'.status = .converged ∧ r'.t = r.t + r.h ∧
      r'.h = cmin o (if r.nSucc + 1 ≥ 2 then r.h * 2 else r.h) (T - (r.t + r.h)) ∧
      r'.nSucc = (if r.nSucc + 1 ≥ 2 then 0 else r.nSucc + 1) ∧ r'.nFail = r.nFail ∧
      r'.done = false ∧ r'.iterations = 0) := by
  intro r'
  cases hc : beConv o s p kc atol rtol r
  · by_cases hm : r.iterations + 1 < p.maxSteps
    · obtain ⟨a1, a2, a3, a4, _, a6, _⟩ := C07_be_inner_continue o s p kc atol rtol T r hd hc hm
      exact Or.inl ⟨rfl, hm, a1, a2, a3, a4, a6⟩
    · by_cases hf : r.nFail < p.reductions.length
      · obtain ⟨a1, a2, a3, a4, _, _, a7, a8, _⟩ := C07_be_schedule_retry o s p kc atol rtol T r hd hc hm hf
        exact Or.inr (Or.inl ⟨hf, rfl, hm, a1, a2, a3, a4, a7, a8⟩)
      · obtain ⟨a1, a2, a3, a4, _⟩ :=
          C07_be_schedule_giveUp o s p kc atol rtol T r hd hc hm (by omega)
        exact Or.inr (Or.inr (Or.inl ⟨by omega, rfl, hm, a1, a2, a3, a4⟩))
  · obtain ⟨a1, a2, a3, a4, a5, _, _, a8, a9, _⟩ := C07_be_schedule_accept o s p kc atol rtol T r hd hc
    exact Or.inr (Or.inr (Or.inr ⟨rfl, a5, a1, a2, a3, a4, a8, a9⟩))

end Any

/-! ### examples on `A → B` over `ℚ` -/

namespace BEEx

/-- reductions `½, ¼`, `max_number_of_steps = 1` (every outer iteration fails): `H = 1, ½, ⅛`,
    then the third failure gives up with `t = ⅛` -/
example :
    let q : BEParams ℚ := { params with maxSteps := 1, reductions := [1/2, 1/4] }
    (List.range 4).map (fun k => ((iter .doolittle q 1 k).h, (iter .doolittle q 1 k).t,
      (iter .doolittle q 1 k).nFail, (iter .doolittle q 1 k).done))
      = [(1, 0, 0, false), (1/2, 0, 1, false), (1/8, 0, 2, false), (1/8, 1/8, 2, true)] := by
  decide +kernel

/-- `h_start = ⅛`, `time_step = 1`: successes at `H = ⅛, ⅛` (doubling), `¼, ¼` (doubling), `½`
    clipped to `time_step − t = ¼`… the step sizes of the accepted outer iterations are
    `⅛ ⅛ ¼ ¼ ¼` and `t` reaches exactly `1` -/
example : (run .mozart { params with hstart := 1/8 } 1 40).status = .converged ∧
    (run .mozart { params with hstart := 1/8 } 1 40).finalTime = 1 ∧
    ((run .mozart { params with hstart := 1/8 } 1 40).trace.map (·.h)).dedup = [1/8, 1/4] ∧
    (run .mozart { params with hstart := 1/8 } 1 40).stats.accepted = 5 := by
  decide +kernel

/-- the hypotheses of `C07_be_schedule_retry` hold in the first loop state of the first example -/
example :
    let q : BEParams ℚ := { params with maxSteps := 1, reductions := [1/2, 1/4] }
    (beHead ratOps 1 (iter .doolittle q 1 0)).done = false ∧
    beConv ratOps (cfg .doolittle) q #[#[1]] #[1/10, 1/10] (1/10) (iter .doolittle q 1 0) = false ∧
    ¬ (iter .doolittle q 1 0).iterations + 1 < q.maxSteps ∧
    (iter .doolittle q 1 0).nFail < q.reductions.length := by
  decide +kernel

end BEEx

#print axioms C07_be_schedule
#print axioms C07_be_schedule_retry
#print axioms C07_be_schedule_giveUp
#print axioms C07_be_schedule_accept
#print axioms C07_be_schedule_double
#print axioms C07_be_schedule_kth
#print axioms C07_be_invariants
#print axioms C07_be_inner_first
#print axioms C07_be_inner_bound
#print axioms C07_be_inner_continue

end Micm
