/-
C19 — matrix containers address every logical element exactly once: each logical element
(block, row, column) maps to its own in-range storage slot, distinct elements never alias;
structural zeros are reported as zero and refuse access.

All statements are about the model definitions in `Micm/Model/Dense.lean` and
`Micm/Model/Sparse.lean`; no number type is involved.  Proofs: `Micm/Lemmas/DenseAddr.lean`,
`Micm/Lemmas/SparseIndex.lean`.

Hypothesis for the sparse part: `WF n set` — `set` is strictly sorted by the lexicographic order
`pairLt` (a `std::set<std::pair>`; hence duplicate free) and every index is `< n`.
NO assumption about empty rows is made: the theorems cover the source's trailing-empty-row quirk
(`row_start_` stays `0` after the last non-empty row; `std::find` then sees an empty or reversed
range and reports "not found", which is the right answer because those rows are empty).
-/
import Micm.Lemmas.SparseIndex
namespace Micm

/-! ## A. dense containers (`L = 0`: row-major `Matrix`, `L ≥ 1`: `VectorMatrix<L>`) -/

/-- every logical element has an in-range slot (both layouts, every shape, incl. `rows % L ≠ 0`) -/
theorem C19_dense_addr_lt (s : DenseShape) {x y : Nat} (hx : x < s.rows) (hy : y < s.cols) :
    s.addr x y < s.size :=
  dense_addr_lt s hx hy

/-- distinct logical elements never alias -/
theorem C19_dense_addr_inj (s : DenseShape) {x y x' y' : Nat}
    (_hx : x < s.rows) (hy : y < s.cols) (_hx' : x' < s.rows) (hy' : y' < s.cols)
    (h : s.addr x y = s.addr x' y') : x = x' ∧ y = y' :=
  dense_addr_inj s hy hy' h

/-- the slots `Axpy`/`ForEach` visit are exactly the addresses of the logical elements,
    each visited once (so padding lanes are never touched) -/
theorem C19_visitSlots (s : DenseShape) :
    (visitSlots s).Nodup ∧ (visitSlots s).length = s.rows * s.cols ∧
      ∀ a, a ∈ visitSlots s ↔ ∃ x y, x < s.rows ∧ y < s.cols ∧ s.addr x y = a :=
  ⟨visitSlots_nodup s, visitSlots_length s, fun _ =>
    ⟨visitSlots_mem_addr s, fun ⟨_, _, hx, hy, h⟩ => h ▸ addr_mem_visitSlots s hx hy⟩⟩

/-! ## B. sparse orderings -/

/-- `RowStartVector`: `start` has `n + 1` entries; `start[r]` is the number of elements in rows
    `< r` for every `r` up to one past the last non-empty row (`lastRow elems` = major index of
    the last element, `0` for the empty list) and stays `0` beyond (the source's quirk). -/
theorem C19_rowStart_spec (n : Nat) (elems : List Pair)
    (hs : elems.Pairwise (fun a b => a.1 ≤ b.1)) (hn : ∀ e ∈ elems, e.1 < n) :
    (rowStart n elems).size = n + 1 ∧
      ∀ r, (rowStart n elems).getD r 0 =
        if r ≤ lastRow elems + 1 then elems.countP (fun e => e.1 < r) else 0 :=
  ⟨rowStart_size n elems hs hn, rowStart_spec n elems hs hn⟩

/-- when the last row is non-empty (micm: the diagonal is always present) `start` is the full
    CSR offset table -/
theorem C19_rowStart_full (n : Nat) (elems : List Pair)
    (hs : elems.Pairwise (fun a b => a.1 ≤ b.1)) (hn : ∀ e ∈ elems, e.1 < n)
    (hlast : ∃ e ∈ elems, e.1 + 1 = n) (r : Nat) (hr : r ≤ n) :
    (rowStart n elems).getD r 0 = elems.countP (fun e => e.1 < r) := by
  obtain ⟨e, he, hen⟩ := hlast
  have := le_lastRow hs he
  rw [rowStart_spec n elems hs hn, if_pos (by omega)]
  rfl

/-- `rank` (CSR): the three outcomes, exhaustively.  The rank of a present element is its index
    in the sorted set. -/
theorem C19_rank_spec {n : Nat} {set : List Pair} (hw : WF n set) (L r c : Nat) :
    (∀ k, (Pattern.mk' n false L set).rank r c = .ok k ↔ (r, c) ∈ set ∧ k = set.idxOf (r, c)) ∧
    ((Pattern.mk' n false L set).rank r c = .error .zeroElementAccess ↔
        r < n ∧ c < n ∧ (r, c) ∉ set) ∧
    ((Pattern.mk' n false L set).rank r c = .error .elementOutOfRange ↔ r ≥ n ∨ c ≥ n) := by
  have hg := good_mk hw false L
  refine ⟨fun k => ?_, ?_, hg.rank_oor r c⟩
  · rw [hg.rank_ok, ← getElem?_eq_some_iff_idxOf hw.sorted.nodup]; rfl
  · rw [hg.rank_zero, mem_key_mk]; rfl

/-- same, by position: `rank r c = ok k` iff the `k`-th element of the set is `(r, c)` -/
theorem C19_rank_getElem {n : Nat} {set : List Pair} (hw : WF n set) (L r c k : Nat) :
    (Pattern.mk' n false L set).rank r c = .ok k ↔ set[k]? = some (r, c) :=
  (good_mk hw false L).rank_ok r c k

/-- ranks are `< nnz = |set|` and injective on elements (either storage order) -/
theorem C19_rank_lt_inj {n : Nat} {set : List Pair} (hw : WF n set) (csc : Bool) (L : Nat) :
    (Pattern.mk' n csc L set).nnz = set.length ∧
    (∀ r c k, (Pattern.mk' n csc L set).rank r c = .ok k → k < (Pattern.mk' n csc L set).nnz) ∧
    (∀ r c r' c' k, (Pattern.mk' n csc L set).rank r c = .ok k →
        (Pattern.mk' n csc L set).rank r' c' = .ok k → r = r' ∧ c = c') :=
  ⟨nnz_mk hw csc L, fun _ _ _ h => (good_mk hw csc L).rank_lt h,
    fun _ _ _ _ _ h1 h2 => (good_mk hw csc L).rank_inj h1 h2⟩

/-- `IsZero` agrees with non-membership (either storage order); it refuses only out-of-range
    indices, with `ElementOutOfRange` -/
theorem C19_isZero_spec {n : Nat} {set : List Pair} (hw : WF n set) (csc : Bool) (L r c : Nat) :
    ((Pattern.mk' n csc L set).isZero r c = .ok false ↔ (r, c) ∈ set) ∧
    ((Pattern.mk' n csc L set).isZero r c = .ok true ↔ r < n ∧ c < n ∧ (r, c) ∉ set) ∧
    (∀ e, (Pattern.mk' n csc L set).isZero r c = .error e ↔
        e = .elementOutOfRange ∧ (r ≥ n ∨ c ≥ n)) := by
  have hg := good_mk hw csc L
  refine ⟨?_, ?_, fun e => hg.isZero_error r c e⟩
  · rw [hg.isZero_false, mem_key_mk]
  · rw [hg.isZero_true, mem_key_mk]; rfl

/-- storage slots (any pattern, `L = 0` and `L ≥ 1`, any block count incl. partial groups):
    in range, injective on (block, rank); `VectorIndex` is `slot` of `rank`, and refuses a block
    `≥ blocks` -/
theorem C19_vectorIndex_inj_lt (p : Pattern) (blocks : Nat) :
    (∀ b k, b < blocks → k < p.nnz → p.slot b k < p.vectorSize blocks) ∧
    (∀ b k b' k', k < p.nnz → k' < p.nnz → p.slot b k = p.slot b' k' → b = b' ∧ k = k') ∧
    (∀ b r c k, b < blocks → p.rank r c = .ok k →
        p.vectorIndex blocks b r c = .ok (p.slot b k)) ∧
    (∀ b r c, b ≥ blocks → p.vectorIndex blocks b r c = .error .elementOutOfRange) := by
  refine ⟨fun b k hb hk => slot_lt p hb hk, fun b k b' k' hk hk' h => slot_inj p hk hk' h,
    ?_, fun b r c hb => vectorIndex_of_ge p hb r c⟩
  intro b r c k hb hk
  rw [vectorIndex_of_lt p hb, hk]; rfl

/-- `VectorIndex` end to end (either storage order): the three outcomes, exhaustively -/
theorem C19_vectorIndex_spec {n : Nat} {set : List Pair} (hw : WF n set) (csc : Bool)
    (L blocks b r c : Nat) :
    (∀ a, (Pattern.mk' n csc L set).vectorIndex blocks b r c = .ok a ↔
        b < blocks ∧ ∃ k, (Pattern.mk' n csc L set).rank r c = .ok k ∧
          a = (Pattern.mk' n csc L set).slot b k) ∧
    ((Pattern.mk' n csc L set).vectorIndex blocks b r c = .error .zeroElementAccess ↔
        b < blocks ∧ r < n ∧ c < n ∧ (r, c) ∉ set) ∧
    ((Pattern.mk' n csc L set).vectorIndex blocks b r c = .error .elementOutOfRange ↔
        r ≥ n ∨ c ≥ n ∨ b ≥ blocks) := by
  have hg := good_mk hw csc L
  by_cases hb : b < blocks
  · rw [vectorIndex_of_lt _ hb]
    have hz := hg.rank_zero r c
    have ho := hg.rank_oor r c
    rw [mem_key_mk] at hz
    simp only [show (Pattern.mk' n csc L set).n = n from rfl] at hz ho
    cases hrk : (Pattern.mk' n csc L set).rank r c with
    | ok k =>
      rw [hrk] at hz ho
      refine ⟨fun a => ?_, ?_, ?_⟩
      · simp only [Except.map, Except.ok.injEq, hb, true_and]
        constructor
        · intro h; exact ⟨k, rfl, h.symm⟩
        · rintro ⟨k', hk', rfl⟩; rw [hk']
      · simp only [Except.map, reduceCtorEq, false_iff]
        intro h; cases hz.mpr h.2
      · simp only [Except.map, reduceCtorEq, false_iff]
        intro h
        rcases h with h | h | h
        · cases ho.mpr (Or.inl h)
        · cases ho.mpr (Or.inr h)
        · omega
    | error e =>
      rw [hrk] at hz ho
      refine ⟨fun a => ?_, ?_, ?_⟩
      · simp [Except.map]
      · simp only [Except.map, hb, true_and]; exact hz
      · simp only [Except.map]
        rw [ho]
        constructor
        · rintro (h | h) <;> simp [h]
        · rintro (h | h | h)
          · exact Or.inl h
          · exact Or.inr h
          · omega
  · rw [vectorIndex_of_ge _ (by omega)]
    refine ⟨fun a => ?_, ?_, ?_⟩
    · simp [hb]
    · simp [hb]
    · simp only [true_iff]; omega

/-- logical elements of all blocks get pairwise distinct in-range slots -/
theorem C19_vectorIndex_inj {n : Nat} {set : List Pair} (hw : WF n set) (csc : Bool)
    (L blocks b r c b' r' c' a : Nat)
    (h : (Pattern.mk' n csc L set).vectorIndex blocks b r c = .ok a)
    (h' : (Pattern.mk' n csc L set).vectorIndex blocks b' r' c' = .ok a) :
    a < (Pattern.mk' n csc L set).vectorSize blocks ∧ b = b' ∧ r = r' ∧ c = c' := by
  have hg := good_mk hw csc L
  obtain ⟨hb, k, hk, rfl⟩ := ((C19_vectorIndex_spec hw csc L blocks b r c).1 _).mp h
  obtain ⟨_, k', hk', he⟩ := ((C19_vectorIndex_spec hw csc L blocks b' r' c').1 _).mp h'
  obtain ⟨hbb, hkk⟩ := slot_inj _ (hg.rank_lt hk) (hg.rank_lt hk') he
  subst hkk
  exact ⟨slot_lt _ hb (hg.rank_lt hk), hbb, hg.rank_inj hk hk'⟩

/-- CSC: elements are stored as (col, row) pairs in lexicographic order; `rank row col` is the
    index of `(col, row)` in that sorted transposed list (which is strictly sorted and holds
    exactly the transposed pairs). -/
theorem C19_csc {n : Nat} {set : List Pair} (hw : WF n set) (L r c : Nat) :
    PairSorted (setOfList (set.map fun e => (e.2, e.1))) ∧
    (∀ x y, (y, x) ∈ setOfList (set.map fun e => (e.2, e.1)) ↔ (x, y) ∈ set) ∧
    (∀ k, (Pattern.mk' n true L set).rank r c = .ok k ↔
        (r, c) ∈ set ∧ k = (setOfList (set.map fun e => (e.2, e.1))).idxOf (c, r)) ∧
    ((Pattern.mk' n true L set).rank r c = .error .zeroElementAccess ↔
        r < n ∧ c < n ∧ (r, c) ∉ set) ∧
    ((Pattern.mk' n true L set).rank r c = .error .elementOutOfRange ↔ r ≥ n ∨ c ≥ n) := by
  have hg := good_mk hw true L
  refine ⟨sorted_setOfList _, fun x y => mem_cscElems set x y, fun k => ?_, ?_, hg.rank_oor r c⟩
  · rw [hg.rank_ok]
    have h1 := getElem?_eq_some_iff_idxOf
      (sorted_setOfList (set.map fun e : Pair => (e.2, e.1))).nodup k (c, r)
    have h2 := mem_cscElems set r c
    unfold cscElems at h2
    rw [← h2, ← h1]; rfl
  · rw [hg.rank_zero, mem_key_mk]; rfl

/-- `diagRanks` lists exactly the ranks of the present diagonal elements, each once -/
theorem C19_diag {n : Nat} {set : List Pair} (hw : WF n set) (csc : Bool) (L : Nat) :
    (Pattern.mk' n csc L set).diagRanks.Nodup ∧
    ∀ k, k ∈ (Pattern.mk' n csc L set).diagRanks ↔
      ∃ i, (i, i) ∈ set ∧ (Pattern.mk' n csc L set).rank i i = .ok k := by
  have hg := good_mk hw csc L
  refine ⟨hg.diagRanks_nodup, fun k => ?_⟩
  rw [hg.mem_diagRanks]
  constructor
  · rintro ⟨i, hi⟩
    rw [← (Pattern.mk' n csc L set).key_diag i] at hi
    refine ⟨i, ?_, (hg.rank_ok i i k).mpr hi⟩
    rw [← mem_key_mk n csc L set i i]
    exact List.mem_of_getElem? hi
  · rintro ⟨i, _, hi⟩
    refine ⟨i, ?_⟩
    rw [← (Pattern.mk' n csc L set).key_diag i]
    exact (hg.rank_ok i i k).mp hi

/-! ## concrete instances: the hypotheses are satisfiable, the model computes what is claimed -/

/-- 3x3, off-diagonal (0,2), (1,2), (2,0) missing -/
def exSet : List Pair := [(0, 0), (0, 1), (1, 0), (1, 1), (2, 1), (2, 2)]
/-- 3x3 with an empty trailing row (the quirk case) -/
def exSetQuirk : List Pair := [(0, 0), (0, 2), (1, 1)]

example : WF 3 exSet := ⟨by unfold PairSorted; decide, by decide⟩
example : WF 3 exSetQuirk := ⟨by unfold PairSorted; decide, by decide⟩

/-- decidable equality of results, for the `decide` checks below only -/
local instance : DecidableEq (Except MatErr Nat)
  | .ok a, .ok b => if h : a = b then isTrue (by rw [h]) else isFalse (fun h' => h (Except.ok.inj h'))
  | .error a, .error b =>
    if h : a = b then isTrue (by rw [h]) else isFalse (fun h' => h (Except.error.inj h'))
  | .ok _, .error _ => isFalse (fun h => nomatch h)
  | .error _, .ok _ => isFalse (fun h => nomatch h)
local instance : DecidableEq (Except MatErr Bool)
  | .ok a, .ok b => if h : a = b then isTrue (by rw [h]) else isFalse (fun h' => h (Except.ok.inj h'))
  | .error a, .error b =>
    if h : a = b then isTrue (by rw [h]) else isFalse (fun h' => h (Except.error.inj h'))
  | .ok _, .error _ => isFalse (fun h => nomatch h)
  | .error _, .ok _ => isFalse (fun h => nomatch h)

-- the tables the model builds
example : (Pattern.mk' 3 false 2 exSet).start = #[0, 2, 4, 6] := by decide +kernel
example : (Pattern.mk' 3 false 2 exSet).ids = #[0, 1, 0, 1, 1, 2] := by decide +kernel
example : (Pattern.mk' 3 true 2 exSet).elems = [(0, 0), (0, 1), (1, 0), (1, 1), (1, 2), (2, 2)] := by
  decide +kernel
example : (Pattern.mk' 3 false 0 exSetQuirk).start = #[0, 2, 3, 0] := by decide +kernel

-- `L = 2`, `blocks = 3` (one full group + a partial group): size, present / absent / out of range
example : (Pattern.mk' 3 false 2 exSet).vectorSize 3 = 24 := by decide +kernel
example : (Pattern.mk' 3 false 2 exSet).vectorIndex 3 2 2 1 = .ok 20 := by decide +kernel
example : (Pattern.mk' 3 false 2 exSet).vectorIndex 3 1 2 2 = .ok 11 := by decide +kernel
example : (Pattern.mk' 3 false 2 exSet).vectorIndex 3 1 1 2 = .error .zeroElementAccess := by
  decide +kernel
example : (Pattern.mk' 3 false 2 exSet).vectorIndex 3 3 1 1 = .error .elementOutOfRange := by
  decide +kernel
example : (Pattern.mk' 3 false 2 exSet).vectorIndex 3 0 3 1 = .error .elementOutOfRange := by
  decide +kernel
example : (Pattern.mk' 3 false 2 exSet).isZero 1 2 = .ok true := by decide +kernel
example : (Pattern.mk' 3 false 2 exSet).isZero 2 1 = .ok false := by decide +kernel
example : (Pattern.mk' 3 true 2 exSet).rank 2 1 = .ok 4 := by decide +kernel
example : (Pattern.mk' 3 false 2 exSet).diagRanks = [0, 3, 5] := by decide +kernel
example : (Pattern.mk' 3 true 2 exSet).diagRanks = [0, 3, 5] := by decide +kernel
-- all slots of all 3 blocks are distinct and in range
example : ((List.range 3).flatMap fun b => (List.range 6).map fun k =>
    (Pattern.mk' 3 false 2 exSet).slot b k).Nodup := by decide +kernel
-- trailing empty row: reversed range `[3, 0)`, still "structural zero"
example : (Pattern.mk' 3 false 0 exSetQuirk).rank 2 2 = .error .zeroElementAccess := by
  decide +kernel
example : (Pattern.mk' 3 false 0 exSetQuirk).rank 1 1 = .ok 2 := by decide +kernel

-- dense: 3 rows in groups of 2 (partial group), 2 columns
example : (DenseShape.mk 3 2 2).size = 8 := by decide
example : visitSlots (DenseShape.mk 3 2 2) = [0, 1, 2, 3, 4, 6] := by decide
example : (List.range 3).flatMap (fun x => (List.range 2).map fun y => (DenseShape.mk 3 2 2).addr x y)
    = [0, 2, 1, 3, 4, 6] := by decide

#print axioms C19_dense_addr_lt
#print axioms C19_dense_addr_inj
#print axioms C19_visitSlots
#print axioms C19_rowStart_spec
#print axioms C19_rowStart_full
#print axioms C19_rank_spec
#print axioms C19_rank_getElem
#print axioms C19_rank_lt_inj
#print axioms C19_isZero_spec
#print axioms C19_vectorIndex_inj_lt
#print axioms C19_vectorIndex_spec
#print axioms C19_vectorIndex_inj
#print axioms C19_csc
#print axioms C19_diag

end Micm
