/-
C12 (continued) — "reordered or unreordered state", the whole solve.

"The answer does not depend on the storage/algorithm configuration.  Solving the same problem with
row-major or vector-grouped matrices (any group length L), CSR or CSC sparse storage, Doolittle or
Mozart LU, separate or in-place factors, reordered or unreordered state yields the same
concentrations up to floating-point rounding, and the same step history unless an accept/reject
decision was within rounding of its threshold."

`Micm/Properties/C12.lean` proves the lockstep of two configurations that share the species order
and the equivariance of the single kernels under a relabelling `σ` of the species.  Here: the whole
`rosSolve` on the mechanism relabelled by a permutation `σ` of `0 … n−1` — the name map composed
with `σ` (`relabel σ m`; this is what `DiagonalMarkowitzReorder`, or another listing order of the
species, does to the builder's `species_map`, see `Micm/Properties/C14b.lean`), the forcing/Jacobian
tables rebuilt from it, the initial state and the absolute tolerances relabelled — returns the
relabelled result: same status, final time, counters and step history `(H, error, accepted)`, and
`Y'[c][σ v] = Y[c][v]`.  Any LU variant, CSR/CSC, sparse/dense group length on each side.

Exact arithmetic: `K` is any field; the primitives of `Ops K` (comparisons, `abs`, `sqrt`, `pow`)
are arbitrary functions, so in particular every ordered field is covered, and there is no "within
rounding of the threshold" case.

Hypothesis "no zero pivot in either ordering" (`PivotsOK` for both runs): LU without pivoting on
`P A Pᵀ` meets the leading principal minors of the *reordered* matrix, which are different numbers;
one ordering may hit an exact zero where the other does not (`C12_linear_algebra_permutation`).

Vocabulary (`Micm/Lemmas/Relabel.lean`, `RelabelLoop.lean`):
* `IsRelabel σ n`: `σ` injective on `ℕ` with `σ i < n ↔ i < n`; `extendRelabel σ n`: a permutation
  of `0 … n−1` extended by the identity (`extendRelabel_isRelabel`);
* `PermMat σ nCells n X X'`: `X`, `X'` are `nCells × n` and `X'[c][σ v] = X[c][v]`;
* `RelabelSetup σ procs m t t' n`: `IsRelabel σ n`, the hypotheses of C02 on `(procs, m, t, n)`
  (`Mechanism`), and `t'` is `ProcessSet.build procs (relabel σ m)`;
* `RelabelEq σ nCells n sameIP r₁ r₂`: the loop states agree up to `σ` (`Y` and, inside a step,
  the initial forcing are relabelled copies; control, status, counters, history equal;
  `jacobian_updates` equal when `sameIP`).
* backward Euler (`Micm/Lemmas/RelabelBE.lean`): `BEStoreInv s nCells n r` (shapes of the scratch the
  Newton update reads), `BERelabelEq σ nCells n r₁ r₂` (`Yn1`, `Yn` relabelled copies; `t`, `H`,
  counters, status, all statistics, history of `H` equal), `BEPivotsOK` (no vanishing pivot in the
  Newton iteration made from a state).  The residual, the clamp `max(·, 0)` and `IsConverged` are
  element-wise, hence commute with `σ` (`C12_be_converged_relabel`).
-/
import Micm.Lemmas.RelabelLoop
import Micm.Lemmas.RelabelBE
import Micm.Properties.C12

open Finset
namespace Micm
variable {K : Type} [Field K]

section Relabel
variable (o : Ops K) (cs : Consts K) (p : RosParams K) (kc : Mat K) (atol atol' : Array K) (rtol T hm : K)
variable {σ : Nat → Nat} {procs : List (Process K)} {m : NameMap} {t t' : PSTables K} {n : Nat}

/-- a permutation of `0 … n−1`, extended by the identity, is a relabelling; on a name map with
    indices below `n` it relabels like `σ` -/
theorem C12_relabel_extend (σ : Nat → Nat) (n : Nat)
    (hinj : ∀ i, i < n → ∀ j, j < n → σ i = σ j → i = j) (hrng : ∀ i, i < n → σ i < n)
    (m : NameMap) (hm : ∀ e ∈ m, e.2 < n) :
    IsRelabel (extendRelabel σ n) n ∧ (∀ i, i < n → extendRelabel σ n i = σ i) ∧
      relabel (extendRelabel σ n) m = relabel σ m :=
  ⟨extendRelabel_isRelabel σ n hinj hrng, fun _ hi => extendRelabel_lt σ hi, relabel_extend σ n m hm⟩

/-- the relabelled mechanism satisfies the hypotheses of C02 again (distinct names, distinct
    indices below `n`, parameterized reactants unknown to the map) -/
theorem C12_relabel_mechanism (h : RelabelSetup σ procs m t t' n) :
    Mechanism procs (relabel σ m) t' n := h.mech'

/-- **C12 (reordering), forcing on whole matrices** -/
theorem C12_forcing_relabel (h : RelabelSetup σ procs m t t' n) (s₁ s₂ : SolverCfg K)
    (ht₁ : s₁.tables = t) (ht₂ : s₂.tables = t') {nCells : Nat} {Y Y' f f' : Mat K}
    (hY : PermMat σ nCells n Y Y') (hf : PermMat σ nCells n f f') :
    PermMat σ nCells n (s₁.forcing kc Y f) (s₂.forcing kc Y' f') :=
  h.forcing s₁ s₂ ht₁ ht₂ kc hY hf

/-- **C12 (reordering), error norm.**  `NormalizedError` of the relabelled data with the relabelled
    tolerance vector, in any dense layout `L'`, equals that of the original data in layout `L`:
    the same terms are summed in a different order. -/
theorem C12_norm_relabel (hσ : IsRelabel σ n) (L L' nCells : Nat)
    (hat : ∀ v, v < n → rd atol' (σ v) = rd atol v)
    {y y' ynew ynew' err err' : Mat K} (hy : PermMat σ nCells n y y')
    (hyn : PermMat σ nCells n ynew ynew') (he : PermMat σ nCells n err err') :
    normalizedError o cs L' n atol' rtol y' ynew' err' = normalizedError o cs L n atol rtol y ynew err :=
  normalizedError_relabel hσ o cs L L' atol atol' rtol hat hy hyn he

/-- **C12 (reordering), one attempt** (`rosAttempt`: `rosStep` is the prologue followed by it,
    `rosStep_eq`).  Two built configurations — of the mechanism and of the relabelled mechanism, any
    LU variants / CSR-CSC / group lengths — started inside a step from states that agree up to `σ`,
    with the tolerances relabelled and no vanishing pivot in either ordering: the resulting states
    agree up to `σ` again (relabelled `Y`; same error, decision, next step size, counters). -/
theorem C12_attempt_relabel {sameIP : Prop} (hset : RelabelSetup σ procs m t t' n)
    (hat : ∀ v, v < n → rd atol' (σ v) = rd atol v)
    (s₁ s₂ : SolverCfg K) (hip : sameIP → s₁.la.kind.inPlace = s₂.la.kind.inPlace)
    (csc₁ csc₂ : Bool) (Ls₁ Ls₂ : Nat) (kind₁ kind₂ : LUKind)
    (hs₁ : CfgBuilt s₁ t n csc₁ Ls₁ kind₁) (hs₂ : CfgBuilt s₂ t' n csc₂ Ls₂ kind₂)
    (nCells : Nat) (q₁ q₂ : RState K)
    (hI₁ : StoreInv p kc s₁ nCells n q₁) (hI₂ : StoreInv p kc s₂ nCells n q₂)
    (hE : RelabelEq σ nCells n sameIP q₁ q₂) (hr : q₁.status = .running) (hi : q₁.inStep = true)
    (hpiv₁ : ∀ c, c < nCells → ∀ i, i < n → s₁.la.pivot ((attMatrix s₁ p q₁).getD c #[])
      (q₁.sc.lower.getD c #[]) (q₁.sc.upper.getD c #[]) i ≠ 0)
    (hpiv₂ : ∀ c, c < nCells → ∀ i, i < n → s₂.la.pivot ((attMatrix s₂ p q₂).getD c #[])
      (q₂.sc.lower.getD c #[]) (q₂.sc.upper.getD c #[]) i ≠ 0) :
    RelabelEq σ nCells n sameIP (rosAttempt o cs s₁ p kc atol rtol hm q₁)
      (rosAttempt o cs s₂ p kc atol' rtol hm q₂) :=
  attempt_relabel o cs p kc atol atol' rtol hm hset hat s₁ s₂ hip csc₁ csc₂ Ls₁ Ls₂ kind₁ kind₂ hs₁ hs₂
    nCells q₁ q₂ hI₁ hI₂ hE hr hi hpiv₁ hpiv₂

/-- **C12 (reordering), one iteration of the solver loop** (`rosStep`: prologue + one attempt) -/
theorem C12_step_relabel {sameIP : Prop} (hset : RelabelSetup σ procs m t t' n)
    (hat : ∀ v, v < n → rd atol' (σ v) = rd atol v)
    (s₁ s₂ : SolverCfg K) (hip : sameIP → s₁.la.kind.inPlace = s₂.la.kind.inPlace)
    (csc₁ csc₂ : Bool) (Ls₁ Ls₂ : Nat) (kind₁ kind₂ : LUKind)
    (hs₁ : CfgBuilt s₁ t n csc₁ Ls₁ kind₁) (hs₂ : CfgBuilt s₂ t' n csc₂ Ls₂ kind₂)
    (nCells : Nat) (r₁ r₂ : RState K)
    (hI₁ : StoreInv p kc s₁ nCells n r₁) (hI₂ : StoreInv p kc s₂ nCells n r₂)
    (hE : RelabelEq σ nCells n sameIP r₁ r₂)
    (hpiv₁ : PivotsOK o cs p kc T s₁ nCells n r₁) (hpiv₂ : PivotsOK o cs p kc T s₂ nCells n r₂) :
    RelabelEq σ nCells n sameIP (rosStep o cs s₁ p kc atol rtol T hm r₁)
      (rosStep o cs s₂ p kc atol' rtol T hm r₂) :=
  step_relabel o cs p kc atol atol' rtol T hm hset hat s₁ s₂ hip csc₁ csc₂ Ls₁ Ls₂ kind₁ kind₂ hs₁ hs₂
    nCells r₁ r₂ hI₁ hI₂ hE hpiv₁ hpiv₂

/-- **C12 (reordering), the whole solve.**  `σ` a permutation of `0 … n−1`; `(procs, m, t, n)` a
    mechanism (hypotheses of C02) and `t'` the tables built from the relabelled name map; `s₁`, `s₂`
    what the builder produces for `t`, resp. `t'`, in *any* two configurations (LU variant, CSR/CSC,
    sparse and dense group lengths); tolerances and initial state relabelled
    (`atol'[σ v] = atol[v]`, `Y'[c][σ v] = Y[c][v]`); the two States only need the right shapes
    (their contents never matter); no pivot vanishes along either run.  Then `rosSolve` returns

    * the same status and final time,
    * the relabelled solution `Y'_final[c][σ v] = Y_final[c][v]`,
    * the same step history `(H, error, accepted)` of all attempts,
    * the same counters `number_of_steps, accepted, rejected, decompositions, solves,
      function_calls` — and the same `jacobian_updates` when both LU variants are in place or both
      are not (the in-place variants regenerate the Jacobian after every rejection). -/
theorem C12_solve_relabel (σ : Nat → Nat)
    (hinj : ∀ i, i < n → ∀ j, j < n → σ i = σ j → i = j) (hrng : ∀ i, i < n → σ i < n)
    (hmech : Mechanism procs m t n) (hb' : ProcessSet.build procs (relabel σ m) = .ok t')
    (s₁ s₂ : SolverCfg K) (csc₁ csc₂ : Bool) (Ls₁ Ls₂ : Nat) (kind₁ kind₂ : LUKind)
    (hs₁ : CfgBuilt s₁ t n csc₁ Ls₁ kind₁) (hs₂ : CfgBuilt s₂ t' n csc₂ Ls₂ kind₂)
    (nCells : Nat) (hat : ∀ v, v < n → rd atol' (σ v) = rd atol v)
    (Y Y' : Mat K) (hYs : MatShape nCells n Y) (hYs' : MatShape nCells n Y')
    (hY : ∀ c, c < nCells → ∀ v, v < n → rd (Y'.getD c #[]) (σ v) = rd (Y.getD c #[]) v)
    (sc₁ sc₂ : Scratch K) (fuel : Nat)
    (hK₁ : KShape nCells n sc₁.k) (hksz₁ : p.stages ≤ sc₁.k.size) (hf₁ : MatShape nCells n sc₁.f0)
    (hye₁ : MatShape nCells n sc₁.yerr)
    (hj₁ : MatShape nCells s₁.la.A.nnz sc₁.jac)
    (hl₁ : s₁.la.kind.inPlace = false → MatShape nCells s₁.la.Lp.nnz sc₁.lower)
    (hu₁ : s₁.la.kind.inPlace = false → MatShape nCells s₁.la.Up.nnz sc₁.upper)
    (hK₂ : KShape nCells n sc₂.k) (hksz₂ : p.stages ≤ sc₂.k.size) (hf₂ : MatShape nCells n sc₂.f0)
    (hye₂ : MatShape nCells n sc₂.yerr)
    (hj₂ : MatShape nCells s₂.la.A.nnz sc₂.jac)
    (hl₂ : s₂.la.kind.inPlace = false → MatShape nCells s₂.la.Lp.nnz sc₂.lower)
    (hu₂ : s₂.la.kind.inPlace = false → MatShape nCells s₂.la.Up.nnz sc₂.upper)
    (hpiv₁ : ∀ j, j < fuel → PivotsOK o cs p kc T s₁ nCells n
      ((rosStep o cs s₁ p kc atol rtol T (hmaxEff o p T))^[j] (rosInit (initialH o cs p T) Y sc₁)))
    (hpiv₂ : ∀ j, j < fuel → PivotsOK o cs p kc T s₂ nCells n
      ((rosStep o cs s₂ p kc atol' rtol T (hmaxEff o p T))^[j] (rosInit (initialH o cs p T) Y' sc₂))) :
    (rosSolve o cs s₂ p kc atol' rtol T Y' sc₂ fuel).status
        = (rosSolve o cs s₁ p kc atol rtol T Y sc₁ fuel).status ∧
    (rosSolve o cs s₂ p kc atol' rtol T Y' sc₂ fuel).finalTime
        = (rosSolve o cs s₁ p kc atol rtol T Y sc₁ fuel).finalTime ∧
    (MatShape nCells n (rosSolve o cs s₁ p kc atol rtol T Y sc₁ fuel).Y ∧
     MatShape nCells n (rosSolve o cs s₂ p kc atol' rtol T Y' sc₂ fuel).Y ∧
     ∀ c, c < nCells → ∀ v, v < n →
      rd ((rosSolve o cs s₂ p kc atol' rtol T Y' sc₂ fuel).Y.getD c #[]) (σ v)
        = rd ((rosSolve o cs s₁ p kc atol rtol T Y sc₁ fuel).Y.getD c #[]) v) ∧
    (rosSolve o cs s₂ p kc atol' rtol T Y' sc₂ fuel).trace.map attLog
        = (rosSolve o cs s₁ p kc atol rtol T Y sc₁ fuel).trace.map attLog ∧
    (rosSolve o cs s₂ p kc atol' rtol T Y' sc₂ fuel).stats.numberOfSteps
        = (rosSolve o cs s₁ p kc atol rtol T Y sc₁ fuel).stats.numberOfSteps ∧
    (rosSolve o cs s₂ p kc atol' rtol T Y' sc₂ fuel).stats.accepted
        = (rosSolve o cs s₁ p kc atol rtol T Y sc₁ fuel).stats.accepted ∧
    (rosSolve o cs s₂ p kc atol' rtol T Y' sc₂ fuel).stats.rejected
        = (rosSolve o cs s₁ p kc atol rtol T Y sc₁ fuel).stats.rejected ∧
    (rosSolve o cs s₂ p kc atol' rtol T Y' sc₂ fuel).stats.decompositions
        = (rosSolve o cs s₁ p kc atol rtol T Y sc₁ fuel).stats.decompositions ∧
    (rosSolve o cs s₂ p kc atol' rtol T Y' sc₂ fuel).stats.solves
        = (rosSolve o cs s₁ p kc atol rtol T Y sc₁ fuel).stats.solves ∧
    (rosSolve o cs s₂ p kc atol' rtol T Y' sc₂ fuel).stats.functionCalls
        = (rosSolve o cs s₁ p kc atol rtol T Y sc₁ fuel).stats.functionCalls ∧
    (s₁.la.kind.inPlace = s₂.la.kind.inPlace →
      (rosSolve o cs s₂ p kc atol' rtol T Y' sc₂ fuel).stats.jacobianUpdates
        = (rosSolve o cs s₁ p kc atol rtol T Y sc₁ fuel).stats.jacobianUpdates) := by
  have hσ := extendRelabel_isRelabel σ n hinj hrng
  have hset : RelabelSetup (extendRelabel σ n) procs m t t' n :=
    ⟨hσ, hmech, by rw [relabel_extend σ n m hmech.range]; exact hb'⟩
  obtain ⟨h1, h2, h3, h4, h5, h6, h7, h8, h9, h10, h11⟩ :=
    solve_relabel (sameIP := s₁.la.kind.inPlace = s₂.la.kind.inPlace) o cs p kc atol atol' rtol T hset
      (fun v hv => by rw [extendRelabel_lt σ hv]; exact hat v hv) s₁ s₂ (fun h => h)
      csc₁ csc₂ Ls₁ Ls₂ kind₁ kind₂ hs₁ hs₂ nCells Y Y' sc₁ sc₂ fuel
      (PermMat.mk' hYs hYs' (fun c hc v hv => by rw [extendRelabel_lt σ hv]; exact hY c hc v hv))
      hK₁ hksz₁ hf₁ hye₁ hj₁ hl₁ hu₁ hK₂ hksz₂ hf₂ hye₂ hj₂ hl₂ hu₂ hpiv₁ hpiv₂
  refine ⟨h1, h2, ⟨h3.left, h3.right, fun c hc v hv => ?_⟩, h4, h5, h6, h7, h8, h9, h10, h11⟩
  have := h3.rd c v hc hv
  rwa [extendRelabel_lt σ hv] at this

/-! ### backward Euler -/

section BE
variable (pb : BEParams K)

/-- **C12 (reordering), `IsConverged`**: the element-wise convergence test gives the same answer on
    relabelled residual / iterate with the relabelled tolerance vector -/
theorem C12_be_converged_relabel (hσ : IsRelabel σ n) (nCells : Nat) (small : K)
    (hat : ∀ v, v < n → rd atol' (σ v) = rd atol v)
    {res res' yn1 yn1' : Mat K} (hr : PermMat σ nCells n res res') (hy : PermMat σ nCells n yn1 yn1') :
    beIsConverged o small atol' rtol res' yn1' = beIsConverged o small atol rtol res yn1 :=
  beIsConverged_relabel hσ o small atol atol' rtol hat hr hy

/-- **C12 (reordering), one Newton iteration of backward Euler** (`beStep`) -/
theorem C12_be_step_relabel (hset : RelabelSetup σ procs m t t' n)
    (hat : ∀ v, v < n → rd atol' (σ v) = rd atol v)
    (s₁ s₂ : SolverCfg K) (csc₁ csc₂ : Bool) (Ls₁ Ls₂ : Nat) (kind₁ kind₂ : LUKind)
    (hs₁ : CfgBuilt s₁ t n csc₁ Ls₁ kind₁) (hs₂ : CfgBuilt s₂ t' n csc₂ Ls₂ kind₂)
    (nCells : Nat) (r₁ r₂ : BEState K)
    (hI₁ : BEStoreInv s₁ nCells n r₁) (hI₂ : BEStoreInv s₂ nCells n r₂)
    (hE : BERelabelEq σ nCells n r₁ r₂)
    (hpiv₁ : BEPivotsOK o kc T s₁ nCells n r₁) (hpiv₂ : BEPivotsOK o kc T s₂ nCells n r₂) :
    BERelabelEq σ nCells n (beStep o s₁ pb kc atol rtol T r₁) (beStep o s₂ pb kc atol' rtol T r₂) :=
  beStep_relabel o pb kc atol atol' rtol T hset hat s₁ s₂ csc₁ csc₂ Ls₁ Ls₂ kind₁ kind₂ hs₁ hs₂ nCells
    r₁ r₂ hI₁ hI₂ hE hpiv₁ hpiv₂

/-- **C12 (reordering), the whole backward-Euler solve.**  Same setting as `C12_solve_relabel`
    (`σ` a permutation of `0 … n−1`, the tables rebuilt from the relabelled name map, any two
    configurations, tolerances and initial state relabelled, States of the right shapes, no pivot
    vanishing along either run): `beSolve` returns the same status, final time, *all* statistics,
    the same sequence of step sizes `H` of the Newton iterations, and the relabelled solution. -/
theorem C12_be_solve_relabel (σ : Nat → Nat)
    (hinj : ∀ i, i < n → ∀ j, j < n → σ i = σ j → i = j) (hrng : ∀ i, i < n → σ i < n)
    (hmech : Mechanism procs m t n) (hb' : ProcessSet.build procs (relabel σ m) = .ok t')
    (s₁ s₂ : SolverCfg K) (csc₁ csc₂ : Bool) (Ls₁ Ls₂ : Nat) (kind₁ kind₂ : LUKind)
    (hs₁ : CfgBuilt s₁ t n csc₁ Ls₁ kind₁) (hs₂ : CfgBuilt s₂ t' n csc₂ Ls₂ kind₂)
    (nCells : Nat) (hat : ∀ v, v < n → rd atol' (σ v) = rd atol v)
    (Y Y' : Mat K) (hYs : MatShape nCells n Y) (hYs' : MatShape nCells n Y')
    (hY : ∀ c, c < nCells → ∀ v, v < n → rd (Y'.getD c #[]) (σ v) = rd (Y.getD c #[]) v)
    (sc₁ sc₂ : Scratch K) (fuel : Nat)
    (hf₁ : MatShape nCells n sc₁.f0) (hj₁ : MatShape nCells s₁.la.A.nnz sc₁.jac)
    (hl₁ : s₁.la.kind.inPlace = false → MatShape nCells s₁.la.Lp.nnz sc₁.lower)
    (hu₁ : s₁.la.kind.inPlace = false → MatShape nCells s₁.la.Up.nnz sc₁.upper)
    (hf₂ : MatShape nCells n sc₂.f0) (hj₂ : MatShape nCells s₂.la.A.nnz sc₂.jac)
    (hl₂ : s₂.la.kind.inPlace = false → MatShape nCells s₂.la.Lp.nnz sc₂.lower)
    (hu₂ : s₂.la.kind.inPlace = false → MatShape nCells s₂.la.Up.nnz sc₂.upper)
    (hpiv₁ : ∀ j, j < fuel → BEPivotsOK o kc T s₁ nCells n
      ((beStep o s₁ pb kc atol rtol T)^[j] (beInit (beInitialH o pb T) Y sc₁)))
    (hpiv₂ : ∀ j, j < fuel → BEPivotsOK o kc T s₂ nCells n
      ((beStep o s₂ pb kc atol' rtol T)^[j] (beInit (beInitialH o pb T) Y' sc₂))) :
    (beSolve o s₂ pb kc atol' rtol T Y' sc₂ fuel).status
        = (beSolve o s₁ pb kc atol rtol T Y sc₁ fuel).status ∧
    (beSolve o s₂ pb kc atol' rtol T Y' sc₂ fuel).finalTime
        = (beSolve o s₁ pb kc atol rtol T Y sc₁ fuel).finalTime ∧
    (beSolve o s₂ pb kc atol' rtol T Y' sc₂ fuel).stats
        = (beSolve o s₁ pb kc atol rtol T Y sc₁ fuel).stats ∧
    (MatShape nCells n (beSolve o s₁ pb kc atol rtol T Y sc₁ fuel).Y ∧
     MatShape nCells n (beSolve o s₂ pb kc atol' rtol T Y' sc₂ fuel).Y ∧
     ∀ c, c < nCells → ∀ v, v < n →
      rd ((beSolve o s₂ pb kc atol' rtol T Y' sc₂ fuel).Y.getD c #[]) (σ v)
        = rd ((beSolve o s₁ pb kc atol rtol T Y sc₁ fuel).Y.getD c #[]) v) ∧
    (beSolve o s₂ pb kc atol' rtol T Y' sc₂ fuel).trace.map (·.h)
        = (beSolve o s₁ pb kc atol rtol T Y sc₁ fuel).trace.map (·.h) := by
  have hσ := extendRelabel_isRelabel σ n hinj hrng
  have hset : RelabelSetup (extendRelabel σ n) procs m t t' n :=
    ⟨hσ, hmech, by rw [relabel_extend σ n m hmech.range]; exact hb'⟩
  obtain ⟨h1, h2, h3, h4, h5⟩ :=
    beSolve_relabel o pb kc atol atol' rtol T hset
      (fun v hv => by rw [extendRelabel_lt σ hv]; exact hat v hv) s₁ s₂
      csc₁ csc₂ Ls₁ Ls₂ kind₁ kind₂ hs₁ hs₂ nCells Y Y' sc₁ sc₂ fuel
      (PermMat.mk' hYs hYs' (fun c hc v hv => by rw [extendRelabel_lt σ hv]; exact hY c hc v hv))
      ⟨hf₁, hj₁, hl₁, hu₁⟩ ⟨hf₂, hj₂, hl₂, hu₂⟩ hpiv₁ hpiv₂
  refine ⟨h1, h2, h3, ⟨h4.left, h4.right, fun c hc v hv => ?_⟩, h5⟩
  have := h4.rd c v hc hv
  rwa [extendRelabel_lt σ hv] at this

end BE

end Relabel

/-! ## Example: C02's mechanism `s0 + s0 + s1 → 2 s2 ; s2 → s0`, relabelled by the transposition
    `0 ↔ 2` (`swap02`), two cells; original: Doolittle, CSR, `L = 0`; relabelled: Mozart in place,
    CSC, `L = 2`; non-uniform tolerances -/

namespace C12Ex

theorem swap02_relabel : IsRelabel swap02 3 := by
  refine ⟨swap02_inj, fun i => ?_⟩
  unfold swap02
  split
  · omega
  · split <;> omega

/-- the tables the constructor builds from the relabelled name map `s0 ↦ 2, s1 ↦ 1, s2 ↦ 0` -/
def swTables : PSTables ℚ :=
  match ProcessSet.build (c02Procs ℚ) (relabel swap02 c02Map) with
  | .ok t => t
  | .error _ => {}

theorem swBuild : ProcessSet.build (c02Procs ℚ) (relabel swap02 c02Map) = .ok swTables := rfl

example : swTables.reactIds = [2, 2, 1, 0] ∧ swTables.prodIds = [0, 2] := by decide +kernel

theorem exSetup : RelabelSetup swap02 (c02Procs ℚ) c02Map (c02Tables ℚ) swTables 3 :=
  ⟨swap02_relabel, exMech, swBuild⟩

def swCfg (kind : LUKind) (csc : Bool) (L : Nat) : SolverCfg ℚ :=
  let la := LinAlg.build kind
    (Pattern.mk' 3 csc L (buildJacobianSet 3 swTables.nonZeroJacobianElements))
  { nSpecies := 3, L := L, tables := swTables,
    flatIds := match swTables.jacobianFlatIds la.A with | .ok f => f | .error _ => [],
    la := la, diag := la.A.diagRanks }

/-- the relabelled problem in configuration (Mozart in place, CSC, `L = 2`) -/
def cfgSw : SolverCfg ℚ := swCfg .mozartInPlace true 2

theorem cfgSw_built : CfgBuilt cfgSw swTables 3 true 2 .mozartInPlace :=
  ⟨rfl, rfl, rfl, by decide +kernel, rfl⟩

def exAtolA : Array ℚ := #[1/10, 1/5, 1/20]
def exAtolSw : Array ℚ := #[1/20, 1/5, 1/10]
def exY0Sw : Mat ℚ := #[#[11, 7, 2], #[1, 1, 1]]

def swScratch : Scratch ℚ :=
  { jac := Array.replicate 2 (Array.replicate cfgSw.la.A.nnz 5),
    lower := #[], upper := #[],
    ynew := dense0, f0 := #[#[1, 2, 3], #[4, 5, 6]], k := #[#[#[7, 7, 7], #[8, 8, 8]]],
    yerr := #[#[9, 9, 9], #[9, 9, 9]] }

/-- no pivot vanishes in the first four iterations of either run -/
theorem exPivotsA : ∀ j, j < 4 → PivotsOK ratOps Ex.consts Ex.params exKc 1 cfgA 2 3
    ((rosStep ratOps Ex.consts cfgA Ex.params exKc exAtolA (1/10) 1
        (hmaxEff ratOps Ex.params 1))^[j]
      (rosInit (initialH ratOps Ex.consts Ex.params 1) exY0 (solveScratch cfgA))) := by
  unfold PivotsOK
  decide +kernel

theorem exPivotsSw : ∀ j, j < 4 → PivotsOK ratOps Ex.consts Ex.params exKc 1 cfgSw 2 3
    ((rosStep ratOps Ex.consts cfgSw Ex.params exKc exAtolSw (1/10) 1
        (hmaxEff ratOps Ex.params 1))^[j]
      (rosInit (initialH ratOps Ex.consts Ex.params 1) exY0Sw swScratch)) := by
  unfold PivotsOK
  decide +kernel

theorem shape23 (M : Mat ℚ) (h : M.size = 2 ∧ ∀ c, c < 2 → (M.getD c #[]).size = 3) : MatShape 2 3 M := h

/-- `C12_solve_relabel` applies: all hypotheses hold on the instance (the scratch of the second
    State holds arbitrary numbers) -/
example :=
  C12_solve_relabel ratOps Ex.consts Ex.params exKc exAtolA exAtolSw (1/10) 1 swap02
    (fun i _ j _ h => swap02_inj h) (fun i hi => (swap02_relabel.lt_iff i).mpr hi) exMech swBuild
    cfgA cfgSw false true 0 2 .doolittle .mozartInPlace cfgA_built cfgSw_built 2
    (by decide +kernel) exY0 exY0Sw ⟨rfl, by decide⟩ ⟨rfl, by decide⟩ (by decide +kernel)
    (solveScratch cfgA) swScratch 4
    (by intro j hj; have : j = 0 := by simpa [solveScratch] using hj
        subst this; exact dense0_shape)
    (by decide) dense0_shape dense0_shape
    ⟨by simp [solveScratch], by decide +kernel⟩
    (fun _ => ⟨by simp [solveScratch], by decide +kernel⟩)
    (fun _ => ⟨by simp [solveScratch], by decide +kernel⟩)
    (by intro j hj; have : j = 0 := by simpa [swScratch] using hj
        subst this; exact ⟨rfl, by decide⟩)
    (by decide) ⟨rfl, by decide⟩ ⟨rfl, by decide⟩
    ⟨by simp [swScratch], by decide +kernel⟩
    (fun h => by cases h) (fun h => by cases h) exPivotsA exPivotsSw

/-- and the two runs, evaluated: same history (rejections, then acceptances), final state relabelled -/
example :
    (rosSolve ratOps Ex.consts cfgA Ex.params exKc exAtolA (1/10) 1 exY0 (solveScratch cfgA) 4).trace.map
        (fun a => (a.h, a.accepted))
      = (rosSolve ratOps Ex.consts cfgSw Ex.params exKc exAtolSw (1/10) 1 exY0Sw swScratch 4).trace.map
        (fun a => (a.h, a.accepted)) ∧
    ((rosSolve ratOps Ex.consts cfgA Ex.params exKc exAtolA (1/10) 1 exY0 (solveScratch cfgA) 4).trace.map
        (fun a => a.accepted)).length = 4 ∧
    (∀ c, c < 2 → ∀ v, v < 3 →
      rd ((rosSolve ratOps Ex.consts cfgSw Ex.params exKc exAtolSw (1/10) 1 exY0Sw swScratch 4).Y.getD c #[])
          (swap02 v)
        = rd ((rosSolve ratOps Ex.consts cfgA Ex.params exKc exAtolA (1/10) 1 exY0 (solveScratch cfgA) 4).Y.getD
          c #[]) v) ∧
    (rosSolve ratOps Ex.consts cfgA Ex.params exKc exAtolA (1/10) 1 exY0 (solveScratch cfgA) 4).Y ≠ exY0 := by
  decide +kernel

/-! ### backward Euler on the same instance: `max_number_of_steps = 3`, reductions `¼, 0.1`,
    `rtol = 10⁻⁶`, `T = ½`: three Newton iterations with `H = ½` fail, `H` is reduced to `⅛`, three more
    converge -/

def exBE : BEParams ℚ := { small := 1 / 10 ^ 40, hstart := 0, maxSteps := 3, reductions := [1/4, 1/10] }

theorem exBEPivotsA : ∀ j, j < 6 → BEPivotsOK ratOps exKc (1/2) cfgA 2 3
    ((beStep ratOps cfgA exBE exKc exAtolA (1/1000000) (1/2))^[j]
      (beInit (beInitialH ratOps exBE (1/2)) exY0 (solveScratch cfgA))) := by
  unfold BEPivotsOK
  decide +kernel

theorem exBEPivotsSw : ∀ j, j < 6 → BEPivotsOK ratOps exKc (1/2) cfgSw 2 3
    ((beStep ratOps cfgSw exBE exKc exAtolSw (1/1000000) (1/2))^[j]
      (beInit (beInitialH ratOps exBE (1/2)) exY0Sw swScratch)) := by
  unfold BEPivotsOK
  decide +kernel

/-- `C12_be_solve_relabel` applies -/
example :=
  C12_be_solve_relabel ratOps exKc exAtolA exAtolSw (1/1000000) (1/2) exBE swap02
    (fun i _ j _ h => swap02_inj h) (fun i hi => (swap02_relabel.lt_iff i).mpr hi) exMech swBuild
    cfgA cfgSw false true 0 2 .doolittle .mozartInPlace cfgA_built cfgSw_built 2
    (by decide +kernel) exY0 exY0Sw ⟨rfl, by decide⟩ ⟨rfl, by decide⟩ (by decide +kernel)
    (solveScratch cfgA) swScratch 6
    dense0_shape ⟨by simp [solveScratch], by decide +kernel⟩
    (fun _ => ⟨by simp [solveScratch], by decide +kernel⟩)
    (fun _ => ⟨by simp [solveScratch], by decide +kernel⟩)
    ⟨rfl, by decide⟩ ⟨by simp [swScratch], by decide +kernel⟩
    (fun h => by cases h) (fun h => by cases h) exBEPivotsA exBEPivotsSw

/-- the two backward-Euler runs, evaluated: one rejected and one accepted outer step, same `H`s,
    relabelled solution -/
example :
    (beSolve ratOps cfgA exBE exKc exAtolA (1/1000000) (1/2) exY0 (solveScratch cfgA) 6).trace.map (·.h)
      = [1/2, 1/2, 1/2, 1/8, 1/8, 1/8] ∧
    (beSolve ratOps cfgSw exBE exKc exAtolSw (1/1000000) (1/2) exY0Sw swScratch 6).trace.map (·.h)
      = [1/2, 1/2, 1/2, 1/8, 1/8, 1/8] ∧
    (beSolve ratOps cfgA exBE exKc exAtolA (1/1000000) (1/2) exY0 (solveScratch cfgA) 6).stats.rejected = 1 ∧
    (beSolve ratOps cfgA exBE exKc exAtolA (1/1000000) (1/2) exY0 (solveScratch cfgA) 6).stats.accepted = 1 ∧
    (∀ c, c < 2 → ∀ v, v < 3 →
      rd ((beSolve ratOps cfgSw exBE exKc exAtolSw (1/1000000) (1/2) exY0Sw swScratch 6).Y.getD c #[])
          (swap02 v)
        = rd ((beSolve ratOps cfgA exBE exKc exAtolA (1/1000000) (1/2) exY0 (solveScratch cfgA) 6).Y.getD
          c #[]) v) := by
  decide +kernel

end C12Ex

end Micm

#print axioms Micm.C12_relabel_extend
#print axioms Micm.C12_relabel_mechanism
#print axioms Micm.C12_forcing_relabel
#print axioms Micm.C12_norm_relabel
#print axioms Micm.C12_attempt_relabel
#print axioms Micm.C12_step_relabel
#print axioms Micm.C12_solve_relabel
#print axioms Micm.C12_be_converged_relabel
#print axioms Micm.C12_be_step_relabel
#print axioms Micm.C12_be_solve_relabel
