/-
C09 (backward-Euler part) — every Newton iterate of backward Euler conserves every linear
invariant exactly *before clipping*: `w·(y + δ) = w·y_n`, regardless of the previous iterate `y`.

Derivation: `w·rhs = w·f(y) − (w·y − w·y_n)/H = −(w·y − w·y_n)/H` (C09: `w·f = 0`), and
`(I/H − J)ᵀ w = w/H` (C09: `wᵀJ = 0`), so `w·δ = H·(w·rhs) = −(w·y − w·y_n)`.

Subject: `beStep` / `beLoop` / `beSolve` of `Micm/Model/BackwardEuler.lean`; exact arithmetic, logical rows of
one cell `c`, configuration built as the builder does (`BuiltCfg`, all four LU variants), mechanism
hypotheses exactly those of `C09_rosenbrock_attempt`: `Resolves m procs rxns` and, for every resolved
reaction, `Σ_products w·yield = Σ_reactants w`.  Numerical hypotheses: `H ≠ 0`, no zero pivot.
Vocabulary: `beUnclipped s kc r` = `Yn1 + δ`, `beNewY o s kc r` = its clamp `max(·, 0)`,
`BENoClip o kc T s n c r` = "if the iteration from `r` passes the loop head then `H ≠ 0`, no pivot of
cell `c` is zero and the clamp does not change cell `c`".
-/
import Micm.Lemmas.BackwardEuler

namespace Micm
set_option linter.unusedSectionVars false
open Finset

section Exact
variable {K : Type} [Field K]
variable (o : Ops K) {s : SolverCfg K} (p : BEParams K) (kc : Mat K) (atol : Array K) (rtol : K)
    (T : K) {n : Nat} (c : Nat) {m : NameMap} {procs : List (Process K)} {kind : LUKind}
    {jac : Pattern}

/-- **C09 for backward Euler, one iteration.**  For a loop state `r` that passes the loop head:
    1. the update `δ` (left in `forcing_`) has `w·δ = −(w·Yn1 − w·Yn)`;
    2. the un-clipped iterate has `w·(Yn1 + δ) = w·Yn` — whatever `Yn1` was;
    3. entry-wise, un-clipped = `Yn1 + δ` and the new `Yn1` is `max(un-clipped, 0)`. -/
theorem C09_be_unclipped (hb : BuiltCfg s m procs n kind jac) (rxns : List (RRxn K))
    (hr : Resolves m procs rxns) (w : Nat → K)
    (hbal : ∀ rx ∈ rxns, (rx.2.map fun p => w p.1 * p.2).sum = (rx.1.map w).sum)
    (r : BEState K) (hd : (beHead o T r).done = false) (hh : r.h ≠ 0)
    (hY : CellShape n c r.Yn1) (hf0 : CellShape n c r.sc.f0)
    (hj : CellShape s.la.A.nnz c r.sc.jac) (hl : CellShape s.la.Lp.nnz c r.sc.lower)
    (hu : CellShape s.la.Up.nnz c r.sc.upper)
    (hpiv : ∀ i, i < n → attPivot s
      (s.factor (addDiag s.diag (s.jacobian kc r.Yn1 (fillM r.sc.jac 0)) (1 / r.h))
        r.sc.lower r.sc.upper) c i ≠ 0) :
    ∑ v ∈ range n, w v * rd ((beStep o s p kc atol rtol T r).sc.f0.getD c #[]) v
      = - (∑ v ∈ range n, w v * rd (r.Yn1.getD c #[]) v - ∑ v ∈ range n, w v * rd (r.Yn.getD c #[]) v) ∧
    ∑ v ∈ range n, w v * rd ((beUnclipped s kc r).getD c #[]) v
      = ∑ v ∈ range n, w v * rd (r.Yn.getD c #[]) v ∧
    (∀ v, v < n → rd ((beUnclipped s kc r).getD c #[]) v
      = rd (r.Yn1.getD c #[]) v + rd ((beStep o s p kc atol rtol T r).sc.f0.getD c #[]) v) ∧
    (∀ v, v < n → rd ((beNewY o s kc r).getD c #[]) v
      = cmax o (rd ((beUnclipped s kc r).getD c #[]) v) 0) := by
  have hsc : (beStep o s p kc atol rtol T r).sc.f0 = beResidual s kc r := by
    rw [beStep_sc o s p kc atol rtol T r hd]
  obtain ⟨h1, h2⟩ := be_unclipped_conserves kc c hb rxns hr w hbal r hh hY hf0 hj hl hu hpiv
  rw [hsc]
  exact ⟨h1, h2, fun v hv => rd_beUnclipped kc c s r hY v hv, fun v hv => rd_beNewY o kc c r hY v hv⟩

/-- **the whole solve, nothing clipped**: if along the loop (iterations `k < fuel`) every Newton
    iteration made has `H ≠ 0`, no zero pivot in cell `c`, and a clamp that does not change cell `c`,
    then `w·Y[c]` is the same after `beSolve` as before — for any status (also at the
    `AcceptingUnconvergedIntegration` exit, where `Y` is an un-converged iterate), any parameters -/
theorem C09_be_solve (hb : BuiltCfg s m procs n kind jac) (rxns : List (RRxn K))
    (hr : Resolves m procs rxns) (w : Nat → K)
    (hbal : ∀ rx ∈ rxns, (rx.2.map fun p => w p.1 * p.2).sum = (rx.1.map w).sum)
    (Y : Mat K) (sc : Scratch K) (fuel : Nat)
    (hY : CellShape n c Y) (hf0 : CellShape n c sc.f0)
    (hj : CellShape s.la.A.nnz c sc.jac) (hl : CellShape s.la.Lp.nnz c sc.lower)
    (hu : CellShape s.la.Up.nnz c sc.upper)
    (hnc : ∀ k, k < fuel → BENoClip o kc T s n c
      ((beStep o s p kc atol rtol T)^[k] (beInit (beInitialH o p T) Y sc))) :
    ∑ v ∈ range n, w v * rd ((beSolve o s p kc atol rtol T Y sc fuel).Y.getD c #[]) v
      = ∑ v ∈ range n, w v * rd (Y.getD c #[]) v ∧
    ∑ v ∈ range n, w v * rd ((beSolve o s p kc atol rtol T Y sc fuel).sc.ynew.getD c #[]) v
      = ∑ v ∈ range n, w v * rd (Y.getD c #[]) v := by
  have h := BEConsInv_loop o p kc atol rtol T c hb rxns hr w hbal (wdot w n (Y.getD c #[])) fuel
    (beInit (beInitialH o p T) Y sc) ⟨hY, hY, hf0, hj, hl, hu, rfl, rfl⟩ hnc
  rw [beSolve_eq]
  exact ⟨h.sum1, h.sum⟩

end Exact

section Clamp
variable {K : Type} [Field K] [LinearOrder K] [IsStrictOrderedRing K]

/-- "nothing was clipped": over an ordered field the clamp is the identity on non-negative entries,
    so a non-negative un-clipped iterate is the new `Yn1` and carries `w·Yn` -/
theorem C09_be_not_clipped {o : Ops K} (ho : OrderedOps o) {s : SolverCfg K} (kc : Mat K) {n : Nat}
    (c : Nat) (r : BEState K) (hY : CellShape n c r.Yn1)
    (hpos : ∀ v, v < n → 0 ≤ rd ((beUnclipped s kc r).getD c #[]) v) :
    ∀ v, v < n → rd ((beNewY o s kc r).getD c #[]) v = rd ((beUnclipped s kc r).getD c #[]) v := by
  intro v hv
  rw [rd_beNewY o kc c r hY v hv, ho.cmax_eq]
  exact max_eq_left (hpos v hv)

end Clamp

/-! ### example: `A → B` conserves `A + B` -/

namespace BEEx

/-- all hypotheses of `C09_be_solve` hold on the run `time_step = 1`, `h_start = 1/4` (three accepted
    outer iterations), every LU variant; `BENoClip` is checked by evaluation -/
theorem exConserved (kind : LUKind) :
    ∑ v ∈ range 2, w v * rd ((run kind { params with hstart := 1/4 } 1 8).Y.getD 0 #[]) v
      = ∑ v ∈ range 2, w v * rd ((#[#[1, 0]] : Mat ℚ).getD 0 #[]) v := by
  unfold run
  refine (C09_be_solve ratOps { params with hstart := 1/4 } #[#[1]] #[1/10, 1/10] (1/10) 1 0
    (exBuilt kind) rxns exResolves w exBalanced #[#[1, 0]] (scratch kind) 8 ?_ ?_ ?_ ?_ ?_ ?_).1
  · decide +kernel
  · cases kind <;> decide +kernel
  · cases kind <;> decide +kernel
  · cases kind <;> decide +kernel
  · cases kind <;> decide +kernel
  · unfold BENoClip
    cases kind <;> decide +kernel

/-- evaluated: the state moved to `(32/75, 43/75)`, `A + B` is still `1` -/
example : (run .doolittle { params with hstart := 1/4 } 1 8).Y = #[#[32/75, 43/75]] ∧
    (run .doolittle { params with hstart := 1/4 } 1 8).status = .converged ∧
    (32/75 : ℚ) + 43/75 = 1 := by decide +kernel

/-- the hypotheses of `C09_be_unclipped` at the initial state: see `BEEx.exNewtonHyps` (C05b); here
    the conclusion, evaluated — `y + δ = (½, ½)` from `y = y_n = (1, 0)`, `δ = (−½, ½)`, `w·δ = 0` -/
example : beUnclipped (cfg .mozart) #[#[1]] (init .mozart params 1) = #[#[1/2, 1/2]] ∧
    beResidual (cfg .mozart) #[#[1]] (init .mozart params 1) = #[#[-1/2, 1/2]] := by decide +kernel

end BEEx

#print axioms C09_be_unclipped
#print axioms C09_be_solve
#print axioms C09_be_not_clipped
#print axioms BEEx.exConserved

end Micm
