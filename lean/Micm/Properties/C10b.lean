/-
  C10 (second part) — a NaN input is never silently accepted by the Rosenbrock solver:
  the missing middle of the chain   NaN input → NaN forcing → K₀ → Yerror → error norm → NaNDetected.

  All statements are about the model definitions `solveCell`, `solveInPlaceCell`,
  `SolverCfg.linSolve`, `stagesGo` (via `attStages`), `attYerr`, `rosStep`, `rosSolve` themselves, for
  an ARBITRARY solver configuration `s : SolverCfg α` (any of the four LU kinds, any substitution
  tables `fw`/`bw` — built by `LinAlg.build` or not —, CSR/CSC, any dense layout `L`), any Rosenbrock
  parameter set with at least one stage, any carrier satisfying the IEEE facts `NaNLaws o`
  (assumed for `Float`, proved for `NaNRat`: `nanRatOps_laws`).

  (a) substitution   `C10_solveCell_nan`, `C10_solveInPlaceCell_nan`, `C10_linSolve_nan`
        a NaN in slot `i` of the right-hand side is a NaN in slot `i` of the solution; no hypothesis
        on the tables or on the matrix values (slot `i` is only ever written by row programs whose
        cursor is `i`, and those compute `(x[i] − Σ…)/d`).
  (b) stages         `C10_K0_eq` (K[0] = linSolve(initial_forcing), any carrier),
                     `C10_yerr_nan`  (Yerror = 0 + e₀K₀ + …;  e₀·NaN is NaN even for e₀ = 0)
  (c),(d) step       `C10_ros_nan_step_forcing`, `C10_ros_nan_new_step`, `C10_ros_nan_step_concentration`
        hold at ANY iteration of the loop, not only the first.
  whole solve        `C10_ros_nan_input`            NaN forcing at the initial state ⇒ `NaNDetected`
                     `C10_ros_nan_rate_constant`    NaN rate constant of a reaction with a state
                                                    reactant/product ⇒ `NaNDetected`
                     `C10_ros_nan_reactant`         NaN concentration of a reactant, through the chain
                     `C10_ros_nan_concentration`    NaN concentration of ANY state variable (directly:
                                                    `max(|NaN|, ·)` keeps the NaN in the norm's scale)
                     `C10_ros_nan_tolerance`        NaN absolute / relative tolerance
                     `…_not_converged`              the same assuming only that the outer loop test
                                                    holds at t = 0: the status is `StepSizeTooSmall` or
                                                    `NaNDetected`, never `Converged`
                     `C10_ros_nan_needs_loop_entry` the loop-entry hypothesis is necessary: if the
                                                    outer test fails at t = 0 (time_step < round_off,
                                                    KF-C06-1) the result is `Converged` and the NaN is
                                                    returned untouched.

  Side conditions of the chain through `Yerror` (all met by a `State` made by the solver: `K` has
  `stages` matrices, every dense matrix is `#cells × nSpecies`):
     0 < p.stages,  0 < sc.k.size,  c < Y.size,  v < s.nSpecies,
     (c, v) is a position of the `Yerror` buffer (and of `initial_forcing` for the corollaries).
  "Loop entered" = `o.le (0 − T + round_off) 0 = true` (not the no-progress case of
  `C06_no_progress_iff`) and the first `H` passes the step-size test.
-/
import Micm.Lemmas.NaNPropSolve
namespace Micm
set_option linter.unusedSectionVars false

section
variable {α : Type} [OfNat α 0] [OfNat α 1] [Add α] [Sub α] [Mul α] [Div α]
variable {o : Ops α}

/-! ### (a) substitution -/

/-- `LinearSolver::Solve` on one cell: NaN in `b[i]` ⇒ NaN in `x[i]`, for any tables, any `L`, `U` -/
theorem C10_solveCell_nan (hl : NaNLaws o) (fw bw : List SubRow) (L U x : Array α) (i : Nat)
    (h : o.isNaN (rd x i) = true) : o.isNaN (rd (solveCell fw bw L U x) i) = true :=
  hl.solveCell_nan fw bw L U x i h

/-- `LinearSolverInPlace::Solve` on one cell -/
theorem C10_solveInPlaceCell_nan (hl : NaNLaws o) (fw bw : List SubRow) (M x : Array α) (i : Nat)
    (h : o.isNaN (rd x i) = true) : o.isNaN (rd (solveInPlaceCell fw bw M x) i) = true :=
  hl.solveInPlaceCell_nan fw bw M x i h

/-- the configured `linear_solver_.Solve` on the whole block (no range hypothesis at all) -/
theorem C10_linSolve_nan (hl : NaNLaws o) (s : SolverCfg α) (J Lo Up x : Mat α) (c v : Nat)
    (h : o.isNaN (rd (x.getD c #[]) v) = true) :
    o.isNaN (rd ((s.linSolve J Lo Up x).getD c #[]) v) = true :=
  hl.linSolve_nan s J Lo Up x c v h

variable (cs : Consts α) (s : SolverCfg α) (p : RosParams α) (kc : Mat α)
    (atol : Array α) (rtol : α) (timeStep hm : α)

/-! ### (b) stage combination -/

/-- the first stage vector of an attempt is the solve of `initial_forcing` (any carrier) -/
theorem C10_K0_eq (r : RState α) (hst : 0 < p.stages) (hk : 0 < r.sc.k.size) :
    (attStages s p kc r).1.getD 0 #[] =
      s.linSolve (attFactor s p r).1 (attFactor s p r).2.1 (attFactor s p r).2.2 r.sc.f0 :=
  attStages_K0 s p kc r hst hk

/-- NaN in `initial_forcing` at (c, v) ⇒ NaN in `Yerror` at (c, v), whatever the coefficients `e`
    and the other stage vectors -/
theorem C10_yerr_nan (hl : NaNLaws o) (r : RState α) (hst : 0 < p.stages) (hk : 0 < r.sc.k.size)
    (c v : Nat) (hce : c < r.sc.yerr.size) (hve : v < (r.sc.yerr.getD c #[]).size)
    (h : o.isNaN (rd (r.sc.f0.getD c #[]) v) = true) :
    o.isNaN (rd ((attYerr s p kc r).getD c #[]) v) = true :=
  hl.attYerr_nan s p kc r hst hk c v hce hve h

/-! ### (c), (d) one iteration of the loop, anywhere in the run -/

/-- an iteration whose attempt starts with a NaN in `initial_forcing` ends `NaNDetected` -/
theorem C10_ros_nan_step_forcing (hl : NaNLaws o) (r : RState α)
    (hrun : (rosPrologue o cs s p kc timeStep r).status = .running)
    (hst : 0 < p.stages) (hk : 0 < r.sc.k.size) (c v : Nat) (hc : c < r.Y.size) (hv : v < s.nSpecies)
    (hce : c < r.sc.yerr.size) (hve : v < (r.sc.yerr.getD c #[]).size)
    (hnan : o.isNaN (rd ((rosPrologue o cs s p kc timeStep r).sc.f0.getD c #[]) v) = true) :
    (rosStep o cs s p kc atol rtol timeStep hm r).status = .nanDetected :=
  hl.rosStep_nan_f0 cs s p kc atol rtol timeStep hm r hrun hst hk c v hc hv hce hve hnan

/-- an iteration that starts a new step at a `Y` whose forcing has a NaN ends `NaNDetected` -/
theorem C10_ros_nan_new_step (hl : NaNLaws o) (r : RState α) (hi : r.inStep = false)
    (hrun : (rosPrologue o cs s p kc timeStep r).status = .running)
    (hst : 0 < p.stages) (hk : 0 < r.sc.k.size) (c v : Nat) (hc : c < r.Y.size) (hv : v < s.nSpecies)
    (hce : c < r.sc.yerr.size) (hve : v < (r.sc.yerr.getD c #[]).size)
    (hnan : o.isNaN (rd ((s.forcing kc r.Y (fillM r.sc.f0 0)).getD c #[]) v) = true) :
    (rosStep o cs s p kc atol rtol timeStep hm r).status = .nanDetected := by
  refine hl.rosStep_nan_f0 cs s p kc atol rtol timeStep hm r hrun hst hk c v hc hv hce hve ?_
  rw [rosPrologue_f0_of_new_step cs s p kc timeStep r hi hrun]; exact hnan

/-- an iteration that makes an attempt from a `Y` with a NaN at a real (cell, variable) ends
    `NaNDetected` — no condition on the mechanism, the stages or the scratch -/
theorem C10_ros_nan_step_concentration (hl : NaNLaws o) (r : RState α)
    (hrun : (rosPrologue o cs s p kc timeStep r).status = .running)
    (c v : Nat) (hc : c < r.Y.size) (hv : v < s.nSpecies)
    (hnan : o.isNaN (rd (r.Y.getD c #[]) v) = true) :
    (rosStep o cs s p kc atol rtol timeStep hm r).status = .nanDetected := by
  refine (C10_ros_nan_error cs s p kc atol rtol timeStep hm o r hrun ?_).1
  have hY := (rosPrologue_frame o cs s p kc timeStep r).2.1
  exact hl.attError_nan_y s p kc cs atol rtol _ c v (by rw [hY]; exact hc) hv (by rw [hY]; exact hnan)

/-! ### the whole `rosSolve` -/

variable (Y : Mat α) (sc : Scratch α) (fuel : Nat)

/-- core: the first attempt's error norm is NaN.  Assuming only the outer loop test at `t = 0`, the
    status is exactly `StepSizeTooSmall` (first `H` refused) or `NaNDetected`. -/
theorem C10_ros_nan_first_attempt
    (hloop : o.le (0 - timeStep + p.roundOff) 0 = true)
    (hnan : o.isNaN (attError o cs s p kc atol rtol (firstAttemptState o cs s p kc timeStep Y sc)) = true) :
    (rosSolve o cs s p kc atol rtol timeStep Y sc (fuel + 1)).status =
      if (o.eq (0 + cs.tenth * initialH o cs p timeStep) 0 ||
          o.le (initialH o cs p timeStep) p.roundOff) = true
      then .stepSizeTooSmall else .nanDetected :=
  rosSolve_nan_first_exact o cs s p kc atol rtol timeStep Y sc fuel hloop hnan

/-- **NaN forcing at the initial state ⇒ `NaNDetected`** (end-to-end: substitution, stage
    combination, norm, loop). -/
theorem C10_ros_nan_input (hl : NaNLaws o)
    (hloop : o.le (0 - timeStep + p.roundOff) 0 = true)
    (hstep : (o.eq (0 + cs.tenth * initialH o cs p timeStep) 0 ||
              o.le (initialH o cs p timeStep) p.roundOff) = false)
    (hst : 0 < p.stages) (hk : 0 < sc.k.size) (c v : Nat) (hc : c < Y.size) (hv : v < s.nSpecies)
    (hce : c < sc.yerr.size) (hve : v < (sc.yerr.getD c #[]).size)
    (hnan : o.isNaN (rd ((s.forcing kc Y (fillM sc.f0 0)).getD c #[]) v) = true) :
    (rosSolve o cs s p kc atol rtol timeStep Y sc (fuel + 1)).status = .nanDetected :=
  rosSolve_nan_first o cs s p kc atol rtol timeStep Y sc fuel ⟨hloop, hstep⟩
    (hl.attError_nan_f0 s p kc cs atol rtol _ hst hk c v hc hv hce hve hnan)

/-- the same assuming only the outer loop test: never `Converged` -/
theorem C10_ros_nan_input_not_converged (hl : NaNLaws o)
    (hloop : o.le (0 - timeStep + p.roundOff) 0 = true)
    (hst : 0 < p.stages) (hk : 0 < sc.k.size) (c v : Nat) (hc : c < Y.size) (hv : v < s.nSpecies)
    (hce : c < sc.yerr.size) (hve : v < (sc.yerr.getD c #[]).size)
    (hnan : o.isNaN (rd ((s.forcing kc Y (fillM sc.f0 0)).getD c #[]) v) = true) :
    (rosSolve o cs s p kc atol rtol timeStep Y sc (fuel + 1)).status ≠ .converged :=
  rosSolve_nan_first_ne_converged o cs s p kc atol rtol timeStep Y sc fuel hloop
    (hl.attError_nan_f0 s p kc cs atol rtol _ hst hk c v hc hv hce hve hnan)

section Mechanism
variable {m : NameMap} {procs : List (Process α)} {rxns : List (RRxn α)}

/-- the forcing of the initial state has a NaN at (c, v) when reaction `n` has a NaN rate constant
    in cell `c` or a NaN reactant concentration, and `v` is a reactant or product of it -/
theorem C10_initial_forcing_nan (hl : NaNLaws o)
    (hb : ProcessSet.build procs m = .ok s.tables) (hr : Resolves m procs rxns)
    (c v : Nat) (hcf : c < sc.f0.size) (hvf : v < (sc.f0.getD c #[]).size)
    (n : Nat) (rx : RRxn α) (kn : α) (hrx : rxns[n]? = some rx) (hkn : (kc.getD c #[])[n]? = some kn)
    (hnan : o.isNaN kn = true ∨ ∃ j ∈ rx.1, o.isNaN (rd (Y.getD c #[]) j) = true)
    (hmem : v ∈ rx.1 ∨ ∃ q ∈ rx.2, q.1 = v) :
    o.isNaN (rd ((s.forcing kc Y (fillM sc.f0 0)).getD c #[]) v) = true := by
  have hc' : c < (fillM sc.f0 (0 : α)).size := by simpa [fillM] using hcf
  have hv' : v < ((fillM sc.f0 (0 : α)).getD c #[]).size := by
    have hvf' : v < sc.f0[c].size := by simpa [Array.getD, hcf] using hvf
    simpa [fillM, Array.getD, hcf] using hvf'
  exact C10_forcing_nan_cell hl s hb hr kc Y _ c hc' n rx kn hrx hkn hnan v hv' hmem

/-- **NaN rate constant ⇒ `NaNDetected`.**  The solver tables are those built from the mechanism
    `procs`; reaction `n` has a NaN rate constant in cell `c` and a state species `v` among its
    reactants or products. -/
theorem C10_ros_nan_rate_constant (hl : NaNLaws o)
    (hb : ProcessSet.build procs m = .ok s.tables) (hr : Resolves m procs rxns)
    (hloop : o.le (0 - timeStep + p.roundOff) 0 = true)
    (hstep : (o.eq (0 + cs.tenth * initialH o cs p timeStep) 0 ||
              o.le (initialH o cs p timeStep) p.roundOff) = false)
    (hst : 0 < p.stages) (hk : 0 < sc.k.size) (c v : Nat) (hc : c < Y.size) (hv : v < s.nSpecies)
    (hce : c < sc.yerr.size) (hve : v < (sc.yerr.getD c #[]).size)
    (hcf : c < sc.f0.size) (hvf : v < (sc.f0.getD c #[]).size)
    (n : Nat) (rx : RRxn α) (kn : α) (hrx : rxns[n]? = some rx) (hkn : (kc.getD c #[])[n]? = some kn)
    (hnan : o.isNaN kn = true) (hmem : v ∈ rx.1 ∨ ∃ q ∈ rx.2, q.1 = v) :
    (rosSolve o cs s p kc atol rtol timeStep Y sc (fuel + 1)).status = .nanDetected :=
  C10_ros_nan_input cs s p kc atol rtol timeStep Y sc fuel hl hloop hstep hst hk c v hc hv hce hve
    (C10_initial_forcing_nan s kc Y sc hl hb hr c v hcf hvf n rx kn hrx hkn (Or.inl hnan) hmem)

theorem C10_ros_nan_rate_constant_not_converged (hl : NaNLaws o)
    (hb : ProcessSet.build procs m = .ok s.tables) (hr : Resolves m procs rxns)
    (hloop : o.le (0 - timeStep + p.roundOff) 0 = true)
    (hst : 0 < p.stages) (hk : 0 < sc.k.size) (c v : Nat) (hc : c < Y.size) (hv : v < s.nSpecies)
    (hce : c < sc.yerr.size) (hve : v < (sc.yerr.getD c #[]).size)
    (hcf : c < sc.f0.size) (hvf : v < (sc.f0.getD c #[]).size)
    (n : Nat) (rx : RRxn α) (kn : α) (hrx : rxns[n]? = some rx) (hkn : (kc.getD c #[])[n]? = some kn)
    (hnan : o.isNaN kn = true) (hmem : v ∈ rx.1 ∨ ∃ q ∈ rx.2, q.1 = v) :
    (rosSolve o cs s p kc atol rtol timeStep Y sc (fuel + 1)).status ≠ .converged :=
  C10_ros_nan_input_not_converged cs s p kc atol rtol timeStep Y sc fuel hl hloop hst hk c v hc hv hce hve
    (C10_initial_forcing_nan s kc Y sc hl hb hr c v hcf hvf n rx kn hrx hkn (Or.inl hnan) hmem)

/-- **NaN reactant concentration ⇒ `NaNDetected`, through the forcing → LU → `Yerror` chain**: the
    NaN concentration `Y[c][j]` of a reactant `j` of reaction `n` reaches the error norm through the
    `Yerror` entry of every reactant and product `v` of that reaction (this does not use that the
    norm also reads `Y` itself, see `C10_ros_nan_concentration`). -/
theorem C10_ros_nan_reactant (hl : NaNLaws o)
    (hb : ProcessSet.build procs m = .ok s.tables) (hr : Resolves m procs rxns)
    (hloop : o.le (0 - timeStep + p.roundOff) 0 = true)
    (hstep : (o.eq (0 + cs.tenth * initialH o cs p timeStep) 0 ||
              o.le (initialH o cs p timeStep) p.roundOff) = false)
    (hst : 0 < p.stages) (hk : 0 < sc.k.size) (c v : Nat) (hc : c < Y.size) (hv : v < s.nSpecies)
    (hce : c < sc.yerr.size) (hve : v < (sc.yerr.getD c #[]).size)
    (hcf : c < sc.f0.size) (hvf : v < (sc.f0.getD c #[]).size)
    (n : Nat) (rx : RRxn α) (kn : α) (hrx : rxns[n]? = some rx) (hkn : (kc.getD c #[])[n]? = some kn)
    (j : Nat) (hj : j ∈ rx.1) (hnan : o.isNaN (rd (Y.getD c #[]) j) = true)
    (hmem : v ∈ rx.1 ∨ ∃ q ∈ rx.2, q.1 = v) :
    (rosSolve o cs s p kc atol rtol timeStep Y sc (fuel + 1)).status = .nanDetected ∧
    o.isNaN (rd ((attYerr s p kc (firstAttemptState o cs s p kc timeStep Y sc)).getD c #[]) v) = true := by
  have hf := C10_initial_forcing_nan s kc Y sc hl hb hr c v hcf hvf n rx kn hrx hkn
    (Or.inr ⟨j, hj, hnan⟩) hmem
  exact ⟨C10_ros_nan_input cs s p kc atol rtol timeStep Y sc fuel hl hloop hstep hst hk c v hc hv hce hve hf,
    hl.attYerr_nan s p kc _ hst hk c v hce hve hf⟩

end Mechanism

/-- **NaN concentration of any state variable ⇒ `NaNDetected`** — whether or not any reaction reads
    it, for any mechanism, any stage count, any scratch: the norm's scale
    `atol + rtol·max(|Y|, |Ynew|)` is NaN because `std::max(NaN, ·)` returns its first argument. -/
theorem C10_ros_nan_concentration (hl : NaNLaws o)
    (hloop : o.le (0 - timeStep + p.roundOff) 0 = true)
    (hstep : (o.eq (0 + cs.tenth * initialH o cs p timeStep) 0 ||
              o.le (initialH o cs p timeStep) p.roundOff) = false)
    (c v : Nat) (hc : c < Y.size) (hv : v < s.nSpecies)
    (hnan : o.isNaN (rd (Y.getD c #[]) v) = true) :
    (rosSolve o cs s p kc atol rtol timeStep Y sc (fuel + 1)).status = .nanDetected :=
  rosSolve_nan_first o cs s p kc atol rtol timeStep Y sc fuel ⟨hloop, hstep⟩
    (hl.attError_nan_y s p kc cs atol rtol _ c v hc hv hnan)

theorem C10_ros_nan_concentration_not_converged (hl : NaNLaws o)
    (hloop : o.le (0 - timeStep + p.roundOff) 0 = true)
    (c v : Nat) (hc : c < Y.size) (hv : v < s.nSpecies)
    (hnan : o.isNaN (rd (Y.getD c #[]) v) = true) :
    (rosSolve o cs s p kc atol rtol timeStep Y sc (fuel + 1)).status ≠ .converged :=
  rosSolve_nan_first_ne_converged o cs s p kc atol rtol timeStep Y sc fuel hloop
    (hl.attError_nan_y s p kc cs atol rtol _ c v hc hv hnan)

/-- a NaN absolute tolerance of a state variable, or a NaN relative tolerance ⇒ `NaNDetected`
    (at least one cell) -/
theorem C10_ros_nan_tolerance (hl : NaNLaws o)
    (hloop : o.le (0 - timeStep + p.roundOff) 0 = true)
    (hstep : (o.eq (0 + cs.tenth * initialH o cs p timeStep) 0 ||
              o.le (initialH o cs p timeStep) p.roundOff) = false)
    (v : Nat) (hc : 0 < Y.size) (hv : v < s.nSpecies)
    (hnan : o.isNaN (rd atol v) = true ∨ o.isNaN rtol = true) :
    (rosSolve o cs s p kc atol rtol timeStep Y sc (fuel + 1)).status = .nanDetected := by
  refine rosSolve_nan_first o cs s p kc atol rtol timeStep Y sc fuel ⟨hloop, hstep⟩ ?_
  rcases hnan with h | h
  · exact hl.attError_nan_atol s p kc cs atol rtol _ v hc hv h
  · exact hl.attError_nan_rtol s p kc cs atol rtol _ hc (by omega) h

/-- **the loop-entry hypothesis is necessary** (interplay with KF-C06-1): when the outer test fails
    at `t = 0` (`time_step < round_off`; also when `time_step` itself is NaN, every comparison being
    false) `rosSolve` answers `Converged` and returns `Y` untouched, NaN entries included. -/
theorem C10_ros_nan_needs_loop_entry (hno : o.le (0 - timeStep + p.roundOff) 0 = false) :
    (rosSolve o cs s p kc atol rtol timeStep Y sc (fuel + 1)).status = .converged ∧
    (rosSolve o cs s p kc atol rtol timeStep Y sc (fuel + 1)).Y = Y :=
  rosSolve_first_converged o cs s p kc atol rtol timeStep Y sc fuel hno

end

/-! ### the hypotheses are satisfiable: `A → B` on `NaNRat`, two cells, a two-stage method with `e₀ = 0` -/

namespace C10bEx

/-- the configuration `SolverBuilder::Build` makes for the mechanism `A → B` of `C10.lean`, for the LU
    variant `kind`, dense layout / sparse vector length `L`, CSR (`csc = false`) or CSC -/
def cfg (kind : LUKind) (L : Nat) (csc : Bool) : SolverCfg NaNRat :=
  let jac := Pattern.mk' 2 csc L (buildJacobianSet 2 c10tables.nonZeroJacobianElements)
  let la := LinAlg.build kind jac
  { nSpecies := 2, L, tables := c10tables,
    flatIds := (match c10tables.jacobianFlatIds la.A with | .ok f => f | .error _ => []),
    la, diag := la.A.diagRanks }

def q (a b : Nat) : NaNRat := NaNRat.ofRat ((a : Rat) / (b : Rat))

/-- a two-stage table; note `e₀ = 0`: the NaN of `K₀` still reaches `Yerror` (`0 · NaN` is NaN) -/
def params : RosParams NaNRat :=
  { stages := 2, a := #[1], c := #[NaNRat.ofRat (-2)], m := #[q 3 2, q 1 2], e := #[0, q 1 2],
    gamma0 := q 17 10, newF := #[true, true], order := 2,
    roundOff := q 1 1000000000000000, fmin := q 1 5, fmax := 6, rejDec := q 1 10, safety := q 9 10,
    hmin := 0, hmax := 0, hstart := 0, maxSteps := 1000 }

def consts : Consts NaNRat :=
  { deltaMin := q 1 1000000, errorMin := q 1 10000000000, tenth := q 1 10, ten := 10 }

def dm : Mat NaNRat := #[#[0, 0], #[0, 0]]
def scratch : Scratch NaNRat :=
  { jac := #[#[0, 0, 0], #[0, 0, 0]], lower := #[#[0, 0, 0], #[0, 0, 0]], upper := #[#[0, 0, 0], #[0, 0, 0]],
    ynew := dm, f0 := dm, k := #[dm, dm], yerr := dm }

/-- rate constants: cell 0 fine, cell 1 NaN -/
def kNaN : Mat NaNRat := #[#[2], #[NaNRat.nan]]
def kOk : Mat NaNRat := #[#[2], #[3]]
def yOk : Mat NaNRat := #[#[1, 1], #[1, 1]]
/-- `[B]` of cell 0 is NaN; `B` is a product only, no reaction reads it -/
def yNaN : Mat NaNRat := #[#[1, NaNRat.nan], #[1, 1]]
def atol : Array NaNRat := #[q 1 1000, q 1 1000]

theorem loop : nanRatOps.le (0 - (1 : NaNRat) + params.roundOff) 0 = true := by decide +kernel
theorem step : (nanRatOps.eq (0 + consts.tenth * initialH nanRatOps consts params 1) 0 ||
    nanRatOps.le (initialH nanRatOps consts params 1) params.roundOff) = false := by decide +kernel

end C10bEx

open C10bEx in
/-- `C10_ros_nan_rate_constant` for every LU kind, every `L`, CSR and CSC: the NaN rate constant of
    cell 1 is reported as `NaNDetected` (seen through `A`, variable 0, a reactant) -/
example (kind : LUKind) (L : Nat) (csc : Bool) (fuel : Nat) :
    (rosSolve nanRatOps consts (cfg kind L csc) params kNaN atol (q 1 1000) 1 yOk scratch (fuel + 1)).status
      = .nanDetected :=
  C10_ros_nan_rate_constant consts (cfg kind L csc) params kNaN atol (q 1 1000) 1 yOk scratch fuel
    nanRatOps_laws (m := c10map) (procs := c10procs) (rxns := [([0], [(1, 1)])]) c10_build c10_resolves
    loop step (by decide) (by decide) 1 0 (by decide) (show 0 < 2 by decide) (by decide) (by decide) (by decide)
    (by decide) 0 ([0], [(1, 1)]) NaNRat.nan rfl rfl rfl (Or.inl (by simp))

open C10bEx in
/-- … and through `B`, variable 1, a product only -/
example (kind : LUKind) (L : Nat) (csc : Bool) (fuel : Nat) :
    (rosSolve nanRatOps consts (cfg kind L csc) params kNaN atol (q 1 1000) 1 yOk scratch (fuel + 1)).status
      = .nanDetected :=
  C10_ros_nan_rate_constant consts (cfg kind L csc) params kNaN atol (q 1 1000) 1 yOk scratch fuel
    nanRatOps_laws (m := c10map) (procs := c10procs) (rxns := [([0], [(1, 1)])]) c10_build c10_resolves
    loop step (by decide) (by decide) 1 1 (by decide) (show 1 < 2 by decide) (by decide) (by decide) (by decide)
    (by decide) 0 ([0], [(1, 1)]) NaNRat.nan rfl rfl rfl (Or.inr ⟨(1, 1), by simp, rfl⟩)

open C10bEx in
/-- `C10_ros_nan_concentration`: a NaN in a species no reaction reads -/
example (kind : LUKind) (L : Nat) (csc : Bool) (fuel : Nat) :
    (rosSolve nanRatOps consts (cfg kind L csc) params kOk atol (q 1 1000) 1 yNaN scratch (fuel + 1)).status
      = .nanDetected :=
  C10_ros_nan_concentration consts (cfg kind L csc) params kOk atol (q 1 1000) 1 yNaN scratch fuel
    nanRatOps_laws loop step 0 1 (by decide) (show 1 < 2 by decide) rfl

open C10bEx in
/-- `C10_ros_nan_reactant`: `[A]` of cell 0 is NaN; seen in `Yerror` at the product `B` -/
example (kind : LUKind) (L : Nat) (csc : Bool) (fuel : Nat) :
    (rosSolve nanRatOps consts (cfg kind L csc) params kOk atol (q 1 1000) 1 #[#[NaNRat.nan, 1], #[1, 1]]
      scratch (fuel + 1)).status = .nanDetected :=
  (C10_ros_nan_reactant consts (cfg kind L csc) params kOk atol (q 1 1000) 1 #[#[NaNRat.nan, 1], #[1, 1]]
    scratch fuel nanRatOps_laws (m := c10map) (procs := c10procs) (rxns := [([0], [(1, 1)])]) c10_build
    c10_resolves loop step (by decide) (by decide) 0 1 (by decide) (show 1 < 2 by decide) (by decide)
    (by decide) (by decide) (by decide) 0 ([0], [(1, 1)]) 2 rfl rfl 0 (by simp) rfl
    (Or.inr ⟨(1, 1), by simp, rfl⟩)).1

open C10bEx in
/-- `C10_ros_nan_tolerance`: NaN absolute tolerance of `B` -/
example (kind : LUKind) (L : Nat) (csc : Bool) (fuel : Nat) :
    (rosSolve nanRatOps consts (cfg kind L csc) params kOk #[q 1 1000, NaNRat.nan] (q 1 1000) 1 yOk
      scratch (fuel + 1)).status = .nanDetected :=
  C10_ros_nan_tolerance consts (cfg kind L csc) params kOk #[q 1 1000, NaNRat.nan] (q 1 1000) 1 yOk
    scratch fuel nanRatOps_laws loop step 1 (by decide) (show 1 < 2 by decide) (Or.inl rfl)

open C10bEx in
/-- cross-check by evaluating the model (kernel computation, independent of the theorems): the four
    LU variants on the NaN rate constant; and the same run without the NaN does not stop at once -/
example :
    (rosSolve nanRatOps consts (cfg .doolittle 0 false) params kNaN atol (q 1 1000) 1 yOk scratch 1).status
      = .nanDetected ∧
    (rosSolve nanRatOps consts (cfg .mozart 0 true) params kNaN atol (q 1 1000) 1 yOk scratch 1).status
      = .nanDetected ∧
    (rosSolve nanRatOps consts (cfg .doolittleInPlace 2 false) params kNaN atol (q 1 1000) 1 yOk scratch 1).status
      = .nanDetected ∧
    (rosSolve nanRatOps consts (cfg .mozartInPlace 0 false) params kNaN atol (q 1 1000) 1 yOk scratch 1).status
      = .nanDetected ∧
    (rosSolve nanRatOps consts (cfg .doolittle 0 false) params kOk atol (q 1 1000) 1 yOk scratch 1).status
      = .outOfFuel := by
  decide +kernel

open C10bEx in
/-- `C10_ros_nan_needs_loop_entry` on a concrete input: `time_step = 10⁻¹⁶ < round_off = 10⁻¹⁵`
    ⇒ `Converged` although `[B]` of cell 0 is NaN -/
example :
    (rosSolve nanRatOps consts (cfg .doolittle 0 false) params kOk atol (q 1 1000) (q 1 10000000000000000)
      yNaN scratch 1).status = .converged :=
  (C10_ros_nan_needs_loop_entry consts (cfg .doolittle 0 false) params kOk atol (q 1 1000)
    (q 1 10000000000000000) yNaN scratch 0 (by decide +kernel)).1

#print axioms C10_solveCell_nan
#print axioms C10_solveInPlaceCell_nan
#print axioms C10_linSolve_nan
#print axioms C10_K0_eq
#print axioms C10_yerr_nan
#print axioms C10_ros_nan_step_forcing
#print axioms C10_ros_nan_new_step
#print axioms C10_ros_nan_step_concentration
#print axioms C10_ros_nan_first_attempt
#print axioms C10_ros_nan_input
#print axioms C10_ros_nan_input_not_converged
#print axioms C10_initial_forcing_nan
#print axioms C10_ros_nan_rate_constant
#print axioms C10_ros_nan_rate_constant_not_converged
#print axioms C10_ros_nan_reactant
#print axioms C10_ros_nan_concentration
#print axioms C10_ros_nan_concentration_not_converged
#print axioms C10_ros_nan_tolerance
#print axioms C10_ros_nan_needs_loop_entry

end Micm
