/-
C19 (second part) — whole-matrix operations act on exactly the addressed logical elements and
agree between the row-major and the grouped layout.

Operations of `Micm/Model/Dense.lean` (`L = 0`: row-major `Matrix`, `L ≥ 1`: `VectorMatrix<L>`,
any `rows`, `cols`, including partial last groups) and `addToDiagonalFlat` of
`Micm/Model/Sparse.lean` (CSR/CSC, standard and vector ordering).  Frame statements are for an
arbitrary carrier type.  "Logical address" = `s.addr x y` with `x < s.rows`, `y < s.cols`; by
`C19_dense_addr_lt/_inj` (in `C19.lean`) these are pairwise distinct in-range slots, so
"every slot that is no logical address" covers all padding lanes of a partial group.

Proofs: `Micm/Lemmas/DenseOps.lean`, `DenseOpsRows.lean`, `DenseOpsDiag.lean`.
-/
import Micm.Lemmas.DenseOpsRows
import Micm.Lemmas.DenseOpsDiag
import Micm.Properties.C19
namespace Micm

section
variable {α : Type} [OfNat α 0]

/-! ## 1. row extraction -/

/-- `std::vector<T>(m[x])`: the `min(L, remaining)` stepping reads exactly the row's `cols`
    logical elements, in column order -/
theorem C19_rowExtract (s : DenseShape) (data : Array α) (hd : data.size = s.size) {x : Nat}
    (hx : x < s.rows) :
    rowExtract s data x = (List.range s.cols).map (fun y => rd data (s.addr x y)) :=
  rowExtract_eq s data hd hx

/-! ## 2. row assignment -/

omit [OfNat α 0] in
/-- row assignment fails iff the vector is shorter than a row, with `RowSizeMismatch` -/
theorem C19_rowAssign_err (s : DenseShape) (data : Array α) (x : Nat) (v : List α) (e : MatErr) :
    rowAssign s data x v = .error e ↔ e = .rowSizeMismatch ∧ v.length < s.cols := by
  by_cases hv : v.length < s.cols
  · rw [rowAssign_err s data x v hv]
    constructor
    · intro h; exact ⟨(Except.error.inj h).symm, hv⟩
    · rintro ⟨rfl, _⟩; rfl
  · constructor
    · intro h
      unfold rowAssign at h
      rw [if_neg hv] at h
      split at h <;> cases h
    · rintro ⟨_, h⟩; exact absurd h hv

/-- on success: same storage size, `v[y]` at the address of `(x, y)` for every `y < cols`
    (elements of `v` beyond `cols` are ignored), every other slot unchanged -/
theorem C19_rowAssign_ok (s : DenseShape) (data : Array α) (hd : data.size = s.size) {x : Nat}
    (hx : x < s.rows) (v : List α) (hv : s.cols ≤ v.length) :
    ∃ res, rowAssign s data x v = .ok res ∧ res.size = data.size ∧
      (∀ y (hy : y < s.cols), rd res (s.addr x y) = v[y]'(Nat.lt_of_lt_of_le hy hv)) ∧
      (∀ j, (∀ y, y < s.cols → s.addr x y ≠ j) → rd res j = rd data j) := by
  have hlen : (v.take s.cols).length = s.cols := by simp; omega
  obtain ⟨w1, w2, w3⟩ := writeRow_spec s x (v.take s.cols) data (by omega)
  refine ⟨_, rowAssign_eq s data hd hx v hv, w1, ?_, ?_⟩
  · intro y hy
    rw [w2 y (by omega) (by rw [hd]; exact dense_addr_lt s hx hy)]
    simp
  · intro j hj
    exact w3 j (fun y hy => hj y (by omega))

/-- in particular every logical element of another row is unchanged -/
theorem C19_rowAssign_other_rows (s : DenseShape) (data : Array α) (hd : data.size = s.size) {x : Nat}
    (hx : x < s.rows) (v : List α) (res : Array α) (h : rowAssign s data x v = .ok res)
    {x' y' : Nat} (hne : x' ≠ x) (hy' : y' < s.cols) :
    rd res (s.addr x' y') = rd data (s.addr x' y') := by
  have hv : s.cols ≤ v.length := by
    apply Nat.le_of_not_lt
    intro hlt
    rw [rowAssign_err s data x v hlt] at h
    cases h
  obtain ⟨res', h1, _, _, h4⟩ := C19_rowAssign_ok s data hd hx v hv
  rw [h1] at h
  cases h
  apply h4
  intro y hy heq
  exact hne (dense_addr_inj s hy hy' heq).1.symm

/-! ## 3. construction from nested vectors -/

theorem C19_fromNested_nil (L : Nat) : fromNested L ([] : List (List α)) = .ok (⟨0, 0, L⟩, #[]) := rfl

/-- rectangular input: shape `⟨#rows, |row 0|, L⟩`, storage of `s.size` elements, logical element
    `(x, y)` holds `m[x][y]`, every slot that is no logical address (padding) holds `0` -/
theorem C19_fromNested (L : Nat) (r0 : List α) (rest : List (List α))
    (hrect : ∀ r ∈ r0 :: rest, r.length = r0.length) :
    ∃ data, fromNested L (r0 :: rest) = .ok (⟨(r0 :: rest).length, r0.length, L⟩, data) ∧
      data.size = (DenseShape.mk (r0 :: rest).length r0.length L).size ∧
      (∀ x (hx : x < (r0 :: rest).length) y (hy : y < (r0 :: rest)[x].length),
        rd data ((DenseShape.mk (r0 :: rest).length r0.length L).addr x y) = (r0 :: rest)[x][y]) ∧
      (∀ j, (∀ x y, x < (r0 :: rest).length → y < r0.length →
          (DenseShape.mk (r0 :: rest).length r0.length L).addr x y ≠ j) → rd data j = 0) := by
  obtain ⟨h1, h2, h3⟩ := nested_fold ⟨(r0 :: rest).length, r0.length, L⟩ (r0 :: rest) 0
    (Array.replicate (DenseShape.size ⟨(r0 :: rest).length, r0.length, L⟩) 0) hrect
    (by simp) (by simp)
  refine ⟨_, fromNested_rect L r0 rest hrect, ?_, ?_, ?_⟩
  · rw [h1]; simp
  · intro x hx y hy
    have := h2 x hx y hy
    rwa [Nat.zero_add] at this
  · intro j hj
    rw [h3 j (by intro i y hi hy; rw [Nat.zero_add]; exact hj i y hi hy)]
    exact rd_replicate _ _

/-- ragged input is refused with `InvalidVector`; nothing else is -/
theorem C19_fromNested_err (L : Nat) (r0 : List α) (rest : List (List α)) (e : MatErr) :
    fromNested L (r0 :: rest) = .error e ↔
      e = .invalidVector ∧ ∃ r ∈ r0 :: rest, r.length ≠ r0.length := by
  by_cases h : ∃ r ∈ r0 :: rest, r.length ≠ r0.length
  · rw [fromNested_ragged L r0 rest h]
    constructor
    · intro h'; exact ⟨(Except.error.inj h').symm, h⟩
    · rintro ⟨rfl, _⟩; rfl
  · constructor
    · intro h'
      have hrect : ∀ r ∈ r0 :: rest, r.length = r0.length := by
        intro r hr
        apply Classical.byContradiction
        intro hne
        exact h ⟨r, hr, hne⟩
      rw [fromNested_rect L r0 rest hrect] at h'
      cases h'
    · rintro ⟨_, h'⟩; exact absurd h' h

/-! ## 4. `ForEach` / `Axpy` -/

/-- `ForEach(f, a)`: at every logical element `f(old this, a)`, every other slot unchanged -/
theorem C19_forEach2 (s : DenseShape) (f : α → α → α) (t a : Array α) (ht : t.size = s.size) :
    (forEach2Flat s f t a).size = t.size ∧
    (∀ x y, x < s.rows → y < s.cols →
      rd (forEach2Flat s f t a) (s.addr x y) = f (rd t (s.addr x y)) (rd a (s.addr x y))) ∧
    (∀ j, (∀ x y, x < s.rows → y < s.cols → s.addr x y ≠ j) →
      rd (forEach2Flat s f t a) j = rd t j) := by
  rw [forEach2Flat_eq]
  exact ⟨visitApply_size _ _ _, fun x y hx hy => visitApply_addr s _ t ht hx hy,
    fun j hj => visitApply_frame s _ t ht hj⟩

/-- `ForEach(f, a, b)` -/
theorem C19_forEach3 (s : DenseShape) (f : α → α → α → α) (t a b : Array α) (ht : t.size = s.size) :
    (forEach3Flat s f t a b).size = t.size ∧
    (∀ x y, x < s.rows → y < s.cols →
      rd (forEach3Flat s f t a b) (s.addr x y)
        = f (rd t (s.addr x y)) (rd a (s.addr x y)) (rd b (s.addr x y))) ∧
    (∀ j, (∀ x y, x < s.rows → y < s.cols → s.addr x y ≠ j) →
      rd (forEach3Flat s f t a b) j = rd t j) := by
  rw [forEach3Flat_eq]
  exact ⟨visitApply_size _ _ _, fun x y hx hy => visitApply_addr s _ t ht hx hy,
    fun j hj => visitApply_frame s _ t ht hj⟩

/-- `y.Axpy(alpha, x)`: `y + alpha * x` at every logical element, every other slot unchanged -/
theorem C19_axpy [Add α] [Mul α] (s : DenseShape) (alpha : α) (x y : Array α) (hy : y.size = s.size) :
    (axpyFlat s alpha x y).size = y.size ∧
    (∀ r c, r < s.rows → c < s.cols →
      rd (axpyFlat s alpha x y) (s.addr r c) = rd y (s.addr r c) + alpha * rd x (s.addr r c)) ∧
    (∀ j, (∀ r c, r < s.rows → c < s.cols → s.addr r c ≠ j) →
      rd (axpyFlat s alpha x y) j = rd y j) := by
  rw [axpyFlat_eq]
  exact ⟨visitApply_size _ _ _, fun r c hr hc => visitApply_addr s _ y hy hr hc,
    fun j hj => visitApply_frame s _ y hy hj⟩

/-- the logical result of `ForEach(f, a)` does not depend on the layout: two shapes with the same
    `rows`/`cols` (any two group lengths, e.g. `L = 0` and `L = 4`) whose operands agree logically
    produce logically equal results -/
theorem C19_forEach2_layout_indep (s s' : DenseShape) (hr : s.rows = s'.rows) (hc : s.cols = s'.cols)
    (f : α → α → α) (t a t' a' : Array α) (ht : t.size = s.size) (ht' : t'.size = s'.size)
    (hT : ∀ x y, x < s.rows → y < s.cols → rd t (s.addr x y) = rd t' (s'.addr x y))
    (hA : ∀ x y, x < s.rows → y < s.cols → rd a (s.addr x y) = rd a' (s'.addr x y))
    {x y : Nat} (hx : x < s.rows) (hy : y < s.cols) :
    rd (forEach2Flat s f t a) (s.addr x y) = rd (forEach2Flat s' f t' a') (s'.addr x y) := by
  rw [(C19_forEach2 s f t a ht).2.1 x y hx hy,
    (C19_forEach2 s' f t' a' ht').2.1 x y (hr ▸ hx) (hc ▸ hy), hT x y hx hy, hA x y hx hy]

theorem C19_forEach3_layout_indep (s s' : DenseShape) (hr : s.rows = s'.rows) (hc : s.cols = s'.cols)
    (f : α → α → α → α) (t a b t' a' b' : Array α) (ht : t.size = s.size) (ht' : t'.size = s'.size)
    (hT : ∀ x y, x < s.rows → y < s.cols → rd t (s.addr x y) = rd t' (s'.addr x y))
    (hA : ∀ x y, x < s.rows → y < s.cols → rd a (s.addr x y) = rd a' (s'.addr x y))
    (hB : ∀ x y, x < s.rows → y < s.cols → rd b (s.addr x y) = rd b' (s'.addr x y))
    {x y : Nat} (hx : x < s.rows) (hy : y < s.cols) :
    rd (forEach3Flat s f t a b) (s.addr x y) = rd (forEach3Flat s' f t' a' b') (s'.addr x y) := by
  rw [(C19_forEach3 s f t a b ht).2.1 x y hx hy,
    (C19_forEach3 s' f t' a' b' ht').2.1 x y (hr ▸ hx) (hc ▸ hy), hT x y hx hy, hA x y hx hy,
    hB x y hx hy]

theorem C19_axpy_layout_indep [Add α] [Mul α] (s s' : DenseShape) (hr : s.rows = s'.rows)
    (hc : s.cols = s'.cols) (alpha : α) (x y x' y' : Array α) (hy : y.size = s.size)
    (hy' : y'.size = s'.size)
    (hY : ∀ r c, r < s.rows → c < s.cols → rd y (s.addr r c) = rd y' (s'.addr r c))
    (hX : ∀ r c, r < s.rows → c < s.cols → rd x (s.addr r c) = rd x' (s'.addr r c))
    {r c : Nat} (hr' : r < s.rows) (hc' : c < s.cols) :
    rd (axpyFlat s alpha x y) (s.addr r c) = rd (axpyFlat s' alpha x' y') (s'.addr r c) := by
  rw [(C19_axpy s alpha x y hy).2.1 r c hr' hc',
    (C19_axpy s' alpha x' y' hy').2.1 r c (hr ▸ hr') (hc ▸ hc'), hY r c hr' hc', hX r c hr' hc']

/-! ## 5. `Max` / `Min` / `Fill` / `Copy` / `Swap` (whole storage, padding included) -/

theorem C19_max (o : Ops α) (data : Array α) (x : α) :
    (maxFlat o data x).size = data.size ∧
    ∀ i, i < data.size → rd (maxFlat o data x) i = cmax o (rd data i) x :=
  ⟨by simp [maxFlat], fun _ hi => rd_map _ data hi⟩

theorem C19_min (o : Ops α) (data : Array α) (x : α) :
    (minFlat o data x).size = data.size ∧
    ∀ i, i < data.size → rd (minFlat o data x) i = cmin o (rd data i) x :=
  ⟨by simp [minFlat], fun _ hi => rd_map _ data hi⟩

theorem C19_fill (data : Array α) (v : α) :
    (fillFlat data v).size = data.size ∧ ∀ i, i < data.size → rd (fillFlat data v) i = v :=
  ⟨by simp [fillFlat], fun _ hi => rd_map _ data hi⟩

omit [OfNat α 0] in
/-- `Copy` succeeds iff the storage sizes are equal; then the target takes the other's storage -/
theorem C19_copy (t other : Array α) :
    (copyFlat t other = none ↔ other.size ≠ t.size) ∧
    (∀ r, copyFlat t other = some r ↔ other.size = t.size ∧ r = other) := by
  unfold copyFlat
  by_cases h : other.size = t.size
  · simp [h, eq_comm]
  · simp [h]

omit [OfNat α 0] in
/-- `Swap` succeeds iff the storage sizes are equal; then the two storages are exchanged -/
theorem C19_swap (t other : Array α) :
    (swapFlat t other = none ↔ other.size ≠ t.size) ∧
    (∀ r, swapFlat t other = some r ↔ other.size = t.size ∧ r = (other, t)) := by
  unfold swapFlat
  by_cases h : other.size = t.size
  · simp [h, eq_comm]
  · simp [h]

/-! ## 6. `AddToDiagonal` on the flat sparse storage -/

/-- For a well-formed pattern (`WF`, as in `C19.lean`; CSR or CSC; `L = 0` standard ordering,
    `L ≥ 1` vector ordering) and storage of `VectorSize(blocks)` elements: `value` is added once at
    the slot of every present diagonal element of every covered block, every other slot is
    unchanged.  Covered blocks: `blocks` for the standard ordering, all lanes of all groups
    (`⌈blocks / L⌉ * L ≥ blocks`, i.e. the padding blocks of a partial last group too — the source
    loops `for i_block < L`) for the vector ordering. -/
theorem C19_addToDiagonal_flat [Add α] {n : Nat} {set : List Pair} (hw : WF n set) (csc : Bool)
    (L blocks : Nat) (data : Array α) (v : α)
    (hd : data.size = (Pattern.mk' n csc L set).vectorSize blocks) :
    (addToDiagonalFlat (Pattern.mk' n csc L set) blocks data v).size = data.size ∧
    (∀ b i k, b < (if L = 0 then blocks else (blocks + L - 1) / L * L) →
      (Pattern.mk' n csc L set).rank i i = .ok k →
      rd (addToDiagonalFlat (Pattern.mk' n csc L set) blocks data v) ((Pattern.mk' n csc L set).slot b k)
        = rd data ((Pattern.mk' n csc L set).slot b k) + v) ∧
    (∀ j, (∀ b i k, b < (if L = 0 then blocks else (blocks + L - 1) / L * L) →
        (Pattern.mk' n csc L set).rank i i = .ok k → (Pattern.mk' n csc L set).slot b k ≠ j) →
      rd (addToDiagonalFlat (Pattern.mk' n csc L set) blocks data v) j = rd data j) := by
  have hg := good_mk hw csc L
  have hdr : ∀ k, k ∈ (Pattern.mk' n csc L set).diagRanks ↔
      ∃ i, (Pattern.mk' n csc L set).rank i i = .ok k := by
    intro k
    rw [hg.mem_diagRanks]
    constructor
    · rintro ⟨i, hi⟩; exact ⟨i, by rw [hg.rank_ok, Pattern.key_diag]; exact hi⟩
    · rintro ⟨i, hi⟩; exact ⟨i, by rw [hg.rank_ok, Pattern.key_diag] at hi; exact hi⟩
  refine ⟨addToDiagonalFlat_size hg blocks data v, ?_, ?_⟩
  · intro b i k hb hk
    rw [addToDiagonalFlat_rd hg blocks data v hd, if_pos]
    exact (mem_diagSlots _ blocks _).mpr ⟨b, k, hb, (hdr k).mpr ⟨i, hk⟩, rfl⟩
  · intro j hj
    rw [addToDiagonalFlat_rd hg blocks data v hd, if_neg]
    intro hm
    obtain ⟨b, k, hb, hk, rfl⟩ := (mem_diagSlots _ blocks _).mp hm
    obtain ⟨i, hi⟩ := (hdr k).mp hk
    exact hj b i k hb hi rfl

/-- through the public index function, for the real blocks: diagonal elements get `+ value`,
    off-diagonal elements are unchanged -/
theorem C19_addToDiagonal_logical [Add α] {n : Nat} {set : List Pair} (hw : WF n set) (csc : Bool)
    (L blocks : Nat) (data : Array α) (v : α)
    (hd : data.size = (Pattern.mk' n csc L set).vectorSize blocks) (b r c a : Nat)
    (ha : (Pattern.mk' n csc L set).vectorIndex blocks b r c = .ok a) :
    rd (addToDiagonalFlat (Pattern.mk' n csc L set) blocks data v) a
      = if r = c then rd data a + v else rd data a := by
  have hg := good_mk hw csc L
  obtain ⟨hb, k, hk, rfl⟩ := ((C19_vectorIndex_spec hw csc L blocks b r c).1 a).mp ha
  obtain ⟨_, h2, h3⟩ := C19_addToDiagonal_flat hw csc L blocks data v hd
  have hcov : b < (if L = 0 then blocks else (blocks + L - 1) / L * L) :=
    Nat.lt_of_lt_of_le hb ((Pattern.mk' n csc L set).le_coveredBlocks blocks)
  by_cases hrc : r = c
  · subst hrc
    rw [if_pos rfl]
    exact h2 b r k hcov hk
  · rw [if_neg hrc]
    apply h3
    intro b' i k' _ hk' heq
    obtain ⟨_, hkk⟩ := slot_inj _ (hg.rank_lt hk') (hg.rank_lt hk) heq
    subst hkk
    obtain ⟨h4, h5⟩ := hg.rank_inj hk hk'
    exact hrc (h4.trans h5.symm)

/-- with a full diagonal (micm's Jacobian patterns) every block has all `n` diagonal elements,
    and each receives `+ value` -/
theorem C19_addToDiagonal_full [Add α] {n : Nat} {set : List Pair} (hw : WF n set) (csc : Bool)
    (L blocks : Nat) (data : Array α) (v : α)
    (hd : data.size = (Pattern.mk' n csc L set).vectorSize blocks)
    (hfull : ∀ i, i < n → (i, i) ∈ set) {b i : Nat} (hb : b < blocks) (hi : i < n) :
    ∃ a, (Pattern.mk' n csc L set).vectorIndex blocks b i i = .ok a ∧
      a < data.size ∧
      rd (addToDiagonalFlat (Pattern.mk' n csc L set) blocks data v) a = rd data a + v := by
  obtain ⟨k, hk⟩ : ∃ k, (Pattern.mk' n csc L set).rank i i = .ok k := by
    obtain ⟨k, hk⟩ := List.mem_iff_getElem?.mp ((mem_key_mk n csc L set i i).mpr (hfull i hi))
    exact ⟨k, ((good_mk hw csc L).rank_ok i i k).mpr hk⟩
  have ha := ((C19_vectorIndex_spec hw csc L blocks b i i).1 _).mpr ⟨hb, k, hk, rfl⟩
  refine ⟨_, ha, ?_, ?_⟩
  · rw [hd]; exact (C19_vectorIndex_inj hw csc L blocks b i i b i i _ ha ha).1
  · rw [C19_addToDiagonal_logical hw csc L blocks data v hd b i i _ ha, if_pos rfl]

end

/-! ## concrete instances (5 rows in groups of 2: two full groups + a partial one; 3 columns) -/

/-- `VectorMatrix<2>`, 5 x 3: 3 groups, 18 slots, 15 logical elements, 3 padding lanes -/
def exShape : DenseShape := ⟨5, 3, 2⟩
/-- storage holding its own slot numbers -/
def exData : Array Nat := Array.range 18
/-- the same logical matrix in row-major storage: element (x, y) holds `exShape.addr x y` -/
def exShapeRM : DenseShape := ⟨5, 3, 0⟩
def exDataRM : Array Nat :=
  ((List.range 5).flatMap fun x => (List.range 3).map fun y => exShape.addr x y).toArray

example : exShape.size = 18 ∧ exData.size = exShape.size := by decide
example : exShapeRM.size = 15 ∧ exDataRM.size = exShapeRM.size := by decide
-- the logical addresses and the three padding lanes 13, 15, 17
example : (List.range 5).map (fun x => (List.range 3).map fun y => exShape.addr x y)
    = [[0, 2, 4], [1, 3, 5], [6, 8, 10], [7, 9, 11], [12, 14, 16]] := by decide
-- row extraction: full group and partial group (the last advance is clipped by `min`)
example : rowExtract exShape exData 3 = [7, 9, 11] := by decide
example : rowExtract exShape exData 4 = [12, 14, 16] := by decide
example : rowExtract exShapeRM exDataRM 4 = [12, 14, 16] := by decide
-- row assignment: too short is refused, longer is truncated, only the row's slots change
example : rowAssign exShape exData 4 [100, 101] = .error .rowSizeMismatch := by rfl
example : (rowAssign exShape exData 4 [100, 101, 102, 103]).toOption
    = some #[0, 1, 2, 3, 4, 5, 6, 7, 8, 9, 10, 11, 100, 13, 101, 15, 102, 17] := by decide
example : (rowAssign exShape exData 1 [100, 101, 102]).toOption
    = some #[0, 100, 2, 101, 4, 102, 6, 7, 8, 9, 10, 11, 12, 13, 14, 15, 16, 17] := by decide
-- nested-vector constructor: 3 x 2 in groups of 2, padding lanes (3, 5... of group 1) are 0
example : (fromNested 2 [[1, 2], [3, 4], [5, 6]]).toOption
    = some (⟨3, 2, 2⟩, #[1, 3, 2, 4, 5, 0, 6, 0]) := by decide
example : (fromNested 0 [[1, 2], [3, 4], [5, 6]]).toOption
    = some (⟨3, 2, 0⟩, #[1, 2, 3, 4, 5, 6]) := by decide
example : ∃ r ∈ [[1, 2], [3], [5, 6]], r.length ≠ [1, 2].length := by decide
example : (fromNested 2 [[1, 2], [3], [5, 6]]).toOption = none := by decide
-- Axpy / ForEach: padding lanes 13, 15, 17 keep their values
example : axpyFlat exShape 10 exData exData
    = #[0, 11, 22, 33, 44, 55, 66, 77, 88, 99, 110, 121, 132, 13, 154, 15, 176, 17] := by decide
example : forEach2Flat exShape (fun t a => t + 2 * a) exData exData
    = #[0, 3, 6, 9, 12, 15, 18, 21, 24, 27, 30, 33, 36, 13, 42, 15, 48, 17] := by decide
example : forEach3Flat exShape (fun t a b => t + a * b) exData exData exData
    = #[0, 2, 6, 12, 20, 30, 42, 56, 72, 90, 110, 132, 156, 13, 210, 15, 272, 17] := by decide
-- hypotheses of the layout-independence theorem hold for (exShapeRM, exDataRM) vs (exShape, exData)
example : ∀ x, x < 5 → ∀ y, y < 3 →
    rd exDataRM (exShapeRM.addr x y) = rd exData (exShape.addr x y) := by decide
-- ... and so does its conclusion
example : ∀ x, x < 5 → ∀ y, y < 3 →
    rd (axpyFlat exShapeRM 10 exDataRM exDataRM) (exShapeRM.addr x y)
      = rd (axpyFlat exShape 10 exData exData) (exShape.addr x y) := by decide
-- Max / Min / Fill act on every storage slot, padding included
def exOps : Ops Nat :=
  { lt := fun a b => decide (a < b), le := fun a b => decide (a ≤ b), eq := fun a b => a == b,
    abs := id, sqrt := id, pow := fun a b => a ^ b, isNaN := fun _ => false, isInf := fun _ => false,
    isFinite := fun _ => true, ofNat := id }
example : maxFlat exOps exData 9
    = #[9, 9, 9, 9, 9, 9, 9, 9, 9, 9, 10, 11, 12, 13, 14, 15, 16, 17] := by decide +kernel
example : minFlat exOps exData 9
    = #[0, 1, 2, 3, 4, 5, 6, 7, 8, 9, 9, 9, 9, 9, 9, 9, 9, 9] := by decide +kernel
example : fillFlat exData 7 = Array.replicate 18 7 := by decide +kernel
example : copyFlat exData exDataRM = none := by decide
example : copyFlat exData (Array.replicate 18 1) = some (Array.replicate 18 1) := by decide
example : swapFlat exData (Array.replicate 18 1) = some (Array.replicate 18 1, exData) := by decide

-- AddToDiagonal: 3 x 3 pattern `exSet` (6 elements, diagonal ranks 0, 3, 5), 3 blocks
example : (Pattern.mk' 3 false 2 exSet).vectorSize 3 = 24 := by decide +kernel
example : (Pattern.mk' 3 false 0 exSet).vectorSize 3 = 18 := by decide +kernel
example : ∀ i, i < 3 → (i, i) ∈ exSet := by decide
-- vector ordering L = 2: groups {0,1} and {2,pad}; the padding block's diagonal is touched too
example : addToDiagonalFlat (Pattern.mk' 3 false 2 exSet) 3 (Array.replicate 24 0) 1
    = #[1, 1, 0, 0, 0, 0, 1, 1, 0, 0, 1, 1,  1, 1, 0, 0, 0, 0, 1, 1, 0, 0, 1, 1] := by decide +kernel
example : addToDiagonalFlat (Pattern.mk' 3 true 2 exSet) 3 (Array.replicate 24 0) 1
    = #[1, 1, 0, 0, 0, 0, 1, 1, 0, 0, 1, 1,  1, 1, 0, 0, 0, 0, 1, 1, 0, 0, 1, 1] := by decide +kernel
-- standard ordering
example : addToDiagonalFlat (Pattern.mk' 3 false 0 exSet) 3 (Array.replicate 18 0) 1
    = #[1, 0, 0, 1, 0, 1,  1, 0, 0, 1, 0, 1,  1, 0, 0, 1, 0, 1] := by decide +kernel

#print axioms C19_rowExtract
#print axioms C19_rowAssign_err
#print axioms C19_rowAssign_ok
#print axioms C19_rowAssign_other_rows
#print axioms C19_fromNested_nil
#print axioms C19_fromNested
#print axioms C19_fromNested_err
#print axioms C19_forEach2
#print axioms C19_forEach3
#print axioms C19_axpy
#print axioms C19_forEach2_layout_indep
#print axioms C19_forEach3_layout_indep
#print axioms C19_axpy_layout_indep
#print axioms C19_max
#print axioms C19_min
#print axioms C19_fill
#print axioms C19_copy
#print axioms C19_swap
#print axioms C19_addToDiagonal_flat
#print axioms C19_addToDiagonal_logical
#print axioms C19_addToDiagonal_full

end Micm
