/-
L1 model of the setters of `State` (state.inl), concretely: name maps, shapes, the order of the checks
and the writes.  A setter returns the new State or the `std::system_error` it throws; the two bulk
setters that can fail half-way (`SetConcentrations`, `SetCustomRateParameters` iterate an
`unordered_map`; `UnsafelySetCustomRateParameters` assigns row after row) return the State **as it is
left** together with the error, because the source gives no roll-back.

The iteration order of the `unordered_map` arguments is an input of the model (the list order).
-/
import Micm.Model.Errors
import Micm.Model.Rosenbrock
namespace Micm

structure MState (α : Type) where
  varMap : NameMap            -- `variable_map_`        (name ↦ column of `variables_`)
  parMap : NameMap            -- `custom_rate_parameter_map_` (label ↦ column of `custom_rate_parameters_`)
  nVars : Nat
  nPars : Nat
  vars : Mat α                -- `variables_`, one row per grid cell
  pars : Mat α                -- `custom_rate_parameters_`
  atol : Array α              -- `absolute_tolerance_` (any length: the setter does not check it)
  rtol : α
  deriving Inhabited

section
variable {α : Type}

def MState.nCells (st : MState α) : Nat := st.vars.size

/-- write column `j` of every row from `vals` (row `c` gets `vals[c]`) -/
def setColumn [OfNat α 0] (m : Mat α) (j : Nat) (vals : List α) : Mat α :=
  m.mapIdx fun c row => wr row j (vals.getD c 0)

/-- `SetConcentration(species, std::vector<double>)`: unknown name first, then the length -/
def MState.setConcentration [OfNat α 0] (st : MState α) (name : String) (vals : List α) :
    Except Err (MState α) :=
  match nmLookup st.varMap name with
  | none => .error (.sys catState 1)
  | some j =>
    if st.vars.size ≠ vals.length then .error (.sys catState 3)
    else .ok { st with vars := setColumn st.vars j vals }

/-- `SetConcentration(species, double)`: only for a single grid cell -/
def MState.setConcentrationScalar [OfNat α 0] (st : MState α) (name : String) (v : α) :
    Except Err (MState α) :=
  match nmLookup st.varMap name with
  | none => .error (.sys catState 1)
  | some j =>
    if st.vars.size ≠ 1 then .error (.sys catState 3)
    else .ok { st with vars := setColumn st.vars j [v] }

/-- `SetCustomRateParameter(label, std::vector<double>)` -/
def MState.setParameter [OfNat α 0] (st : MState α) (label : String) (vals : List α) :
    Except Err (MState α) :=
  match nmLookup st.parMap label with
  | none => .error (.sys catState 2)
  | some j =>
    if st.pars.size ≠ vals.length then .error (.sys catState 5)
    else .ok { st with pars := setColumn st.pars j vals }

/-- `SetCustomRateParameter(label, double)` -/
def MState.setParameterScalar [OfNat α 0] (st : MState α) (label : String) (v : α) :
    Except Err (MState α) :=
  match nmLookup st.parMap label with
  | none => .error (.sys catState 2)
  | some j =>
    if st.pars.size ≠ 1 then .error (.sys catState 5)
    else .ok { st with pars := setColumn st.pars j [v] }

/-- a bulk setter: apply `f` to the entries in (iteration) order, stop at the first error and return
    the State as left by the entries before it -/
def bulk {κ : Type} (f : MState α → κ → Except Err (MState α)) : MState α → List κ → MState α × Option Err
  | st, [] => (st, none)
  | st, k :: ks =>
    match f st k with
    | .error e => (st, some e)
    | .ok st' => bulk f st' ks

/-- `SetConcentrations(unordered_map)`, entries in the map's iteration order -/
def MState.setConcentrations [OfNat α 0] (st : MState α) (kvs : List (String × List α)) :
    MState α × Option Err :=
  bulk (fun st kv => st.setConcentration kv.1 kv.2) st kvs

/-- `SetCustomRateParameters(unordered_map)` -/
def MState.setParameters [OfNat α 0] (st : MState α) (kvs : List (String × List α)) :
    MState α × Option Err :=
  bulk (fun st kv => st.setParameter kv.1 kv.2) st kvs

/-- `UnsafelySetCustomRateParameters(vector<vector<double>>)`: number of rows, length of the FIRST row,
    then row assignments (each needs at least `nPars` elements, extra elements are ignored; a short row
    throws the matrix error after the rows before it were written) -/
def MState.unsafelySetParameters [OfNat α 0] (st : MState α) (rows : List (List α)) :
    MState α × Option Err :=
  if rows.length ≠ st.vars.size then (st, some (.sys catState 5))
  else if (rows.headD []).length ≠ st.nPars then (st, some (.sys catState 4))
  else
    let go := fun (acc : Mat α × Option Err) (ci : Nat) =>
      match acc.2 with
      | some _ => acc
      | none =>
        let row := rows.getD ci []
        match rowAssignCheck st.nPars row.length with
        | .error e => (acc.1, some e)
        | .ok _ => (acc.1.setIfInBounds ci ((row.take st.nPars).toArray), none)
    let r := (List.range st.pars.size).foldl go (st.pars, none)
    ({ st with pars := r.1 }, r.2)

/-- `SetAbsoluteTolerances`: no check at all -/
def MState.setAbsoluteTolerances (st : MState α) (v : List α) : MState α := { st with atol := v.toArray }

def MState.setRelativeTolerance (st : MState α) (v : α) : MState α := { st with rtol := v }

/-- `State::operator=(const State&)`: every member of the target is replaced by the source's -- the name maps
    and the name list as well as the data; nothing of the old target survives -/
def MState.assign (_dst src : MState α) : MState α := src

/-- reading a concentration by name -/
def MState.concentration [OfNat α 0] (st : MState α) (name : String) (cell : Nat) : Option α :=
  (nmLookup st.varMap name).map fun j => rd (st.vars.getD cell #[]) j

def MState.parameter [OfNat α 0] (st : MState α) (label : String) (cell : Nat) : Option α :=
  (nmLookup st.parMap label).map fun j => rd (st.pars.getD cell #[]) j

end
end Micm
