/-
L1 model of the dense containers `Matrix<T>` and `VectorMatrix<T,L>` on flat storage:
storage size, element address, row assignment / extraction (with the `min(L, remaining)`
stepping), construction from nested vectors, Fill / Axpy / ForEach / Max / Min.
`L = 0` encodes the row-major `Matrix`, `L ≥ 1` encodes `VectorMatrix<L>`.
-/
import Micm.Model.Sparse
namespace Micm

structure DenseShape where
  rows : Nat
  cols : Nat
  L : Nat
  deriving Repr, BEq, DecidableEq, Inhabited

def DenseShape.groups (s : DenseShape) : Nat := if s.L = 0 then s.rows else (s.rows + s.L - 1) / s.L
/-- `data_.size()` -/
def DenseShape.size (s : DenseShape) : Nat :=
  if s.L = 0 then s.rows * s.cols else ((s.rows + s.L - 1) / s.L) * s.L * s.cols
/-- address of logical element (x, y) -/
def DenseShape.addr (s : DenseShape) (x y : Nat) : Nat :=
  if s.L = 0 then x * s.cols + y else ((x / s.L) * s.cols + y) * s.L + x % s.L

section
variable {α : Type} [OfNat α 0]

/-- `std::vector<T>(row)` extraction through the non-const proxy: starts at the row's first
    element and advances by `min(L, remaining)` -/
def rowExtract (s : DenseShape) (data : Array α) (x : Nat) : List α :=
  if s.L = 0 then (List.range s.cols).map fun y => rd data (x * s.cols + y)
  else
    ((List.range s.cols).foldl (fun (st : List α × Nat) _ =>
      (rd data st.2 :: st.1, st.2 + min s.L (data.size - st.2))) ([], (x / s.L) * s.cols * s.L + x % s.L)).1.reverse

/-- row assignment from a vector of at least `cols` elements -/
def rowAssign (s : DenseShape) (data : Array α) (x : Nat) (v : List α) : Except MatErr (Array α) :=
  if v.length < s.cols then .error .rowSizeMismatch
  else if s.L = 0 then
    .ok (((v.take s.cols).zipIdx).foldl (fun d p => wr d (x * s.cols + p.2) p.1) data)
  else
    .ok ((v.take s.cols).foldl (fun (st : Array α × Nat) e =>
      (wr st.1 st.2 e, st.2 + min s.L (st.1.size - st.2))) (data, (x / s.L) * s.cols * s.L + x % s.L)).1

/-- construction from `std::vector<std::vector<T>>` -/
def fromNested (L : Nat) (m : List (List α)) : Except MatErr (DenseShape × Array α) :=
  match m with
  | [] => .ok (⟨0, 0, L⟩, #[])
  | r0 :: _ =>
    let s : DenseShape := ⟨m.length, r0.length, L⟩
    if m.any (fun r => r.length != r0.length) then .error .invalidVector
    else
      .ok (s, ((m.zipIdx).foldl (fun d rx =>
        ((rx.1.zipIdx).foldl (fun d ey => wr d (s.addr rx.2 ey.2) ey.1) d)) (Array.replicate s.size 0)))

variable [Add α] [Mul α]

/-- `Axpy` on flat storage: whole groups linearly, then the partial group's real lanes -/
def axpyFlat (s : DenseShape) (alpha : α) (x y : Array α) : Array α :=
  if s.L = 0 then y.mapIdx fun i yi => yi + alpha * rd x i
  else
    let n := (s.rows / s.L) * s.L * s.cols
    let y := (List.range n).foldl (fun y i => wr y i (rd y i + alpha * rd x i)) y
    (List.range s.cols).foldl (fun y i => (List.range (s.rows % s.L)).foldl (fun y j =>
      let a := n + i * s.L + j
      wr y a (rd y a + alpha * rd x a)) y) y

/-- `ForEach(f, a)`: `f(this, a)` on whole groups linearly, then on the partial group's real lanes -/
def forEach2Flat (s : DenseShape) (f : α → α → α) (t a : Array α) : Array α :=
  if s.L = 0 then t.mapIdx fun i ti => f ti (rd a i)
  else
    let n := (s.rows / s.L) * s.L * s.cols
    let t := (List.range n).foldl (fun t i => wr t i (f (rd t i) (rd a i))) t
    (List.range s.cols).foldl (fun t y => (List.range (s.rows % s.L)).foldl (fun t x =>
      let k := n + y * s.L + x
      wr t k (f (rd t k) (rd a k))) t) t

/-- `ForEach(f, a, b)` -/
def forEach3Flat (s : DenseShape) (f : α → α → α → α) (t a b : Array α) : Array α :=
  if s.L = 0 then t.mapIdx fun i ti => f ti (rd a i) (rd b i)
  else
    let n := (s.rows / s.L) * s.L * s.cols
    let t := (List.range n).foldl (fun t i => wr t i (f (rd t i) (rd a i) (rd b i))) t
    if s.rows % s.L > 0 then
      (List.range s.cols).foldl (fun t y => (List.range (s.rows % s.L)).foldl (fun t x =>
        let k := n + y * s.L + x
        wr t k (f (rd t k) (rd a k) (rd b k))) t) t
    else t

/-- `Max(x)` / `Min(x)`: every storage slot (`for (auto& y : data_)`), padding included -/
def maxFlat (o : Ops α) (data : Array α) (x : α) : Array α := data.map fun y => cmax o y x
def minFlat (o : Ops α) (data : Array α) (x : α) : Array α := data.map fun y => cmin o y x
/-- `Fill(v)` / `operator=(T)` -/
def fillFlat (data : Array α) (v : α) : Array α := data.map fun _ => v
/-- `Copy(other)`: refuses a different storage size (`std::runtime_error`), otherwise takes other's storage -/
def copyFlat (t other : Array α) : Option (Array α) := if other.size != t.size then none else some other
/-- `Swap(other)` -/
def swapFlat (t other : Array α) : Option (Array α × Array α) := if other.size != t.size then none else some (other, t)

/-- the set of flat slots `ForEach`/`Axpy` visit (exactly the logical elements) -/
def visitSlots (s : DenseShape) : List Nat :=
  if s.L = 0 then List.range (s.rows * s.cols)
  else
    let n := (s.rows / s.L) * s.L * s.cols
    List.range n ++ ((List.range s.cols).flatMap fun i => (List.range (s.rows % s.L)).map fun j => n + i * s.L + j)

end
end Micm
