/-
L1 model of `System`/`Phase` naming, `SolverBuilder::Build` (checks in the source's order),
`GetSpeciesMap` with `DiagonalMarkowitzReorder` (size_t wrap-around modelled in `UInt64`),
`SetAbsoluteTolerances`, and the `State` name maps / setters' validation.
-/
import Micm.Model.BackwardEuler
namespace Micm

/-- outcome of a call that may throw -/
inductive Err
  | sys (category : String) (code : Nat)    -- std::system_error with a micm category
  | outOfRange                              -- std::out_of_range escaping (`map::at`)
  | runtime                                 -- std::runtime_error
  | hang                                    -- the call does not return
  deriving Repr, BEq, DecidableEq, Inhabited

def catBuilder := "MICM Solver Builder"
def catProcessSet := "MICM Process Set"
def catState := "MICM State"
def catMatrix := "MICM Matrix"
def catProcess := "MICM Process"
def catSpecies := "MICM Species"

def PSErr.toErr : PSErr → Err
  | .reactantDoesNotExist _ => .sys catProcessSet 1
  | .productDoesNotExist _ => .sys catProcessSet 2
def MatErr.toErr (e : MatErr) : Err := .sys catMatrix e.code

structure SpeciesDecl (α : Type) where
  name : String
  param : Bool := false
  atol : Option α := none       -- "absolute tolerance" double property
  deriving Inhabited

structure SystemDecl (α : Type) where
  gas : List (SpeciesDecl α)
  phases : List (String × List (SpeciesDecl α))   -- in the unordered_map's iteration order (an input)
  deriving Inhabited

section
variable {α : Type}

def phaseUnique (sp : List (SpeciesDecl α)) : List String := (sp.filter (!·.param)).map (·.name)

/-- `System::UniqueNames()` -/
def SystemDecl.uniqueNames (s : SystemDecl α) : List String :=
  phaseUnique s.gas ++ s.phases.flatMap fun ph => (phaseUnique ph.2).map fun n => ph.1 ++ "." ++ n

def SystemDecl.stateSize (s : SystemDecl α) : Nat :=
  (s.gas.filter (!·.param)).length + (s.phases.map fun ph => (ph.2.filter (!·.param)).length).sum

/-- `std::map` insertion `m[name] = v` (sorted by key, overwrite) -/
def nmInsert (m : NameMap) (k : String) (v : Nat) : NameMap :=
  match m with
  | [] => [(k, v)]
  | e :: l => if k < e.1 then (k, v) :: e :: l else if k == e.1 then (k, v) :: l else e :: nmInsert l k v

def nmOfNames (names : List String) : NameMap :=
  (names.zipIdx).foldl (fun m p => nmInsert m p.1 p.2) []

/-! ### DiagonalMarkowitzReorder -/

abbrev IMat := Array (Array Nat)
def IMat.get (m : IMat) (i j : Nat) : Nat := (m.getD i #[]).getD j 0
def IMat.set (m : IMat) (i j v : Nat) : IMat := m.modify i fun r => r.setIfInBounds j v

/-- one `row` iteration; `perm`, `pattern` as in the source; counts in wrapping `UInt64` -/
def markowitzRow (order : Nat) (st : Array Nat × IMat) (row : Nat) : Array Nat × IMat :=
  let (perm, pat) := st
  let beta0 : UInt64 := (UInt64.ofNat (order - 1)) * (UInt64.ofNat (order - 1))
  let (_, maxRow) := (rangeFrom row order).foldl (fun (bm : UInt64 × Nat) col =>
    let ca := (rangeFrom row order).foldl (fun c i => c + (if pat.get col i == 0 then 0 else 1)) (0 : Nat)
    let cb := (rangeFrom row order).foldl (fun c i => c + (if pat.get i col == 0 then 0 else 1)) (0 : Nat)
    let count : UInt64 := (UInt64.ofNat ca - 1) * (UInt64.ofNat cb - 1)
    if count < bm.1 then (count, col) else bm) (beta0, row)
  let (perm, pat) :=
    if maxRow != row then
      let pat := (rangeFrom row order).foldl (fun p i =>
        let a := p.get row i; let b := p.get maxRow i
        (p.set row i b).set maxRow i a) pat
      let pat := (rangeFrom row order).foldl (fun p i =>
        let a := p.get i row; let b := p.get i maxRow
        (p.set i row b).set i maxRow a) pat
      let a := perm.getD row 0; let b := perm.getD maxRow 0
      ((perm.setIfInBounds row b).setIfInBounds maxRow a, pat)
    else (perm, pat)
  let pat := (rangeFrom (row + 1) order).foldl (fun p col =>
    if p.get row col != 0 then
      (rangeFrom (row + 1) order).foldl (fun p i =>
        p.set i col (if p.get i row != 0 || p.get i col != 0 then 1 else 0)) p
    else p) pat
  (perm, pat)

/-- `DiagonalMarkowitzReorder`; `order = 0` makes the loop bound `order - 1` wrap to 2^64-1:
    the call does not return (modelled as `hang`). -/
def markowitz (order : Nat) (pat : IMat) : Except Err (Array Nat) :=
  if order = 0 then .error .hang
  else .ok ((List.range (order - 1)).foldl (markowitzRow order) (Array.range order, pat)).1

/-! ### builder -/

structure BuildInput (α : Type) where
  system : Option (SystemDecl α)
  reactions : Option (List (Process α))    -- `SetReactions` argument, if called
  ignoreUnused : Bool := false
  reorder : Bool := true
  deriving Inhabited

/-- `GetSpeciesMap` -/
def getSpeciesMap (sys : SystemDecl α) (procs : List (Process α)) (reorder : Bool) : Except Err NameMap := do
  let names := sys.uniqueNames
  let m0 := nmOfNames names
  if !reorder then return m0
  let t ← (ProcessSet.build procs m0).mapError PSErr.toErr
  let n := sys.stateSize
  let z : IMat := Array.replicate n (Array.replicate n 0)
  let pat := t.nonZeroJacobianElements.foldl (fun p e => p.set e.1 e.2 1) z
  let perm ← markowitz n pat
  let names' := (List.range names.length).map fun i => names.getD (perm.getD i 0) ""
  -- `species_map[name] = index++` over the reordered names, on top of the first map
  return (names'.zipIdx).foldl (fun m p => nmInsert m p.1 p.2) m0

def speciesUsed (procs : List (Process α)) : List String :=
  procs.flatMap fun p => p.reactants.map (·.name) ++ p.products.map (·.1.name)

/-- `SetAbsoluteTolerances`: gas species by name, non-gas species by "<phase>.<name>" -/
def setAbsoluteTolerances [OfNat α 0] (dflt : α) (sys : SystemDecl α) (m : NameMap) : Except Err (Array α) := do
  let tol : Array α := Array.replicate m.length dflt
  let tol ← sys.gas.foldlM (fun tol sp =>
    match sp.atol with
    | none => pure tol
    | some v => match nmLookup m sp.name with
      | some i => pure (wr tol i v)
      | none => throw Err.outOfRange) tol
  sys.phases.foldlM (fun tol ph => ph.2.foldlM (fun tol sp =>
    match sp.atol with
    | none => pure tol
    | some v => match nmLookup m (ph.1 ++ "." ++ sp.name) with
      | some i => pure (wr tol i v)
      | none => throw Err.outOfRange) tol) tol

structure Built (α : Type) where
  speciesMap : NameMap
  variableNames : List String
  nSpecies : Nat
  labels : List String
  tables : PSTables α
  nonZero : List Pair
  atol : Array α
  deriving Inhabited

/-- `SolverBuilder::Build`, checks in the source's order -/
def build [OfNat α 0] (dflt : α) (labelsOf : List (Process α) → List String) (b : BuildInput α) :
    Except Err (Built α) := do
  let some sys := b.system | throw (Err.sys catBuilder 2)
  let procs := b.reactions.getD []
  if procs.isEmpty then throw (Err.sys catBuilder 3)
  let n := sys.stateSize
  if n = 0 then throw (Err.sys catBuilder 4)
  let m ← getSpeciesMap sys procs b.reorder
  let labels := labelsOf procs
  if !b.ignoreUnused then
    let used := speciesUsed procs
    if sys.uniqueNames.any (fun s => !used.contains s) then throw (Err.sys catBuilder 1)
  let t ← (ProcessSet.build procs m).mapError PSErr.toErr
  let nz := t.nonZeroJacobianElements
  let names := (List.range n).map fun i => ((m.find? (·.2 == i)).map (·.1)).getD ""
  let atol ← setAbsoluteTolerances dflt sys m
  return { speciesMap := m, variableNames := names, nSpecies := n, labels, tables := t, nonZero := nz, atol }

end
end Micm
