/-
L1 model of the four sparse LU decompositions and the two linear solvers.

For each algorithm: the symbolic factorisation (`GetLUMatrices` / `GetLUMatrix`), `Initialize`
as a *nested* program (per row: its entries, each with its index pairs), `flatten*` giving the
source's parallel flat streams and counts (compared entry-for-entry with the C++ tables), and the
per-cell numeric kernel.  Element indices are ranks in the block (C++: rank for standard orderings,
rank*L for vector orderings).
-/
import Micm.Model.Sparse
namespace Micm

/-! ### symbolic factorisations (sets of (row, col)) -/

def rangeFrom (a b : Nat) : List Nat := List.range' a (b - a)   -- a, a+1, …, b-1

/-- `LuDecompositionDoolittle::GetLUMatrices` : returns (L_ids, U_ids) -/
def doolittleSymbolic (n : Nat) (az : Nat → Nat → Bool) : List Pair × List Pair :=
  (List.range n).foldl (fun (LU : List Pair × List Pair) i =>
    let U := (rangeFrom i n).foldl (fun U k =>
      if !az i k || k == i then setInsert (i, k) U
      else if (List.range i).any (fun j => setMem (i, j) LU.1 && setMem (j, k) U) then setInsert (i, k) U
      else U) LU.2
    let L := (rangeFrom i n).foldl (fun L k =>
      if !az k i || k == i then setInsert (k, i) L
      else if (List.range i).any (fun j => setMem (k, j) L && setMem (j, i) U) then setInsert (k, i) L
      else L) LU.1
    (L, U)) ([], [])

/-- `LuDecompositionDoolittleInPlace::GetLUMatrix` -/
def doolittleInPlaceSymbolic (n : Nat) (az : Nat → Nat → Bool) : List Pair :=
  (List.range n).foldl (fun (S : List Pair) i =>
    let S := (rangeFrom i n).foldl (fun S k =>
      if !az i k || k == i then setInsert (i, k) S
      else if (List.range i).any (fun j => setMem (i, j) S && setMem (j, k) S) then setInsert (i, k) S
      else S) S
    (rangeFrom i n).foldl (fun S k =>
      if !az k i || k == i then setInsert (k, i) S
      else if (List.range i).any (fun j => setMem (k, j) S && setMem (j, i) S) then setInsert (k, i) S
      else S) S) []

/-- `LuDecompositionMozart::GetLUMatrices` -/
def mozartSymbolic (n : Nat) (az : Nat → Nat → Bool) : List Pair × List Pair :=
  let LU0 : List Pair × List Pair := (List.range n).foldl (fun LU i =>
    let U := (rangeFrom i n).foldl (fun U j => if !az i j then setInsert (i, j) U else U) LU.2
    let L := setInsert (i, i) LU.1
    let L := (List.range i).foldl (fun L j => if !az i j then setInsert (i, j) L else L) L
    (L, U)) ([], [])
  (List.range n).foldl (fun LU i =>
    let L := (rangeFrom (i + 1) n).foldl (fun L j => if !az j i then setInsert (j, i) L else L) LU.1
    (rangeFrom (i + 1) n).foldl (fun (LU : List Pair × List Pair) k =>
      if !setMem (i, k) LU.2 then LU
      else
        let U := (rangeFrom (i + 1) (k + 1)).foldl (fun U j => if setMem (j, i) LU.1 then setInsert (j, k) U else U) LU.2
        let L := (rangeFrom (k + 1) n).foldl (fun L j => if setMem (j, i) L then setInsert (j, k) L else L) LU.1
        (L, U)) (L, LU.2)) LU0

/-- `LuDecompositionMozartInPlace::GetLUMatrix` -/
def mozartInPlaceSymbolic (n : Nat) (az : Nat → Nat → Bool) : List Pair :=
  let S0 : List Pair := (List.range n).foldl (fun S i =>
    (List.range n).foldl (fun S j => if !az i j then setInsert (i, j) S else S) S) []
  (List.range n).foldl (fun S i =>
    (rangeFrom (i + 1) n).foldl (fun S k =>
      if setMem (i, k) S then
        (rangeFrom (i + 1) n).foldl (fun S j => if setMem (j, i) S then setInsert (j, k) S else S) S
      else S) S) S0

/-! ### Doolittle (separate L, U) -/

structure DEntry where
  a : Option Nat          -- do_aik / aik : source element in A (none ⇒ fill with 0)
  t : Nat                 -- target element (uik or lki)
  pairs : List (Nat × Nat)
  deriving Repr, BEq, Inhabited

structure DRow where
  u : List DEntry
  lii : Nat
  l : List DEntry
  uii : Nat
  deriving Repr, BEq, Inhabited

def doolittleRows (A Lp Up : Pattern) : List DRow :=
  let n := A.n
  (List.range n).map fun i =>
    let u := (rangeFrom i n).filterMap fun k =>
      let pairs := (List.range i).filterMap fun j =>
        if Lp.zero? i j || Up.zero? j k then none else some (Lp.rk i j, Up.rk j k)
      if A.zero? i k then
        if pairs.isEmpty && k != i then none else some ⟨none, Up.rk i k, pairs⟩
      else some ⟨some (A.rk i k), Up.rk i k, pairs⟩
    let l := (rangeFrom (i + 1) n).filterMap fun k =>
      let pairs := (List.range i).filterMap fun j =>
        if Lp.zero? k j || Up.zero? j i then none else some (Lp.rk k j, Up.rk j i)
      if A.zero? k i then
        if pairs.isEmpty then none else some ⟨none, Lp.rk k i, pairs⟩
      else some ⟨some (A.rk k i), Lp.rk k i, pairs⟩
    { u, lii := Lp.rk i i, l, uii := Up.rk i i }

/-- the source's flat streams (for exact comparison with the C++ tables) -/
structure DoolittleStreams where
  niLU : List (Nat × Nat)
  doAik : List Bool
  aik : List Nat
  uikNkj : List (Nat × Nat)
  lijUjk : List (Nat × Nat)
  doAki : List Bool
  aki : List Nat
  lkiNkj : List (Nat × Nat)
  lkjUji : List (Nat × Nat)
  uii : List Nat
  deriving Repr, BEq

def flattenDoolittle (n : Nat) (Up : Pattern) (rows : List DRow) : DoolittleStreams :=
  { niLU := rows.map fun r => (r.l.length, r.u.length)
    doAik := rows.flatMap fun r => r.u.map (·.a.isSome)
    aik := rows.flatMap fun r => r.u.filterMap (·.a)
    uikNkj := rows.flatMap fun r => r.u.map fun e => (e.t, e.pairs.length)
    lijUjk := rows.flatMap fun r => r.u.flatMap (·.pairs)
    doAki := rows.flatMap fun r => r.l.map (·.a.isSome)
    aki := rows.flatMap fun r => r.l.filterMap (·.a)
    lkiNkj := rows.flatMap fun r => (r.lii, 0) :: r.l.map fun e => (e.t, e.pairs.length)
    lkjUji := rows.flatMap fun r => r.l.flatMap (·.pairs)
    uii := (rows.flatMap fun r => r.l.map fun _ => r.uii) ++ [Up.rk (n - 1) (n - 1)] }

section Num
variable {α : Type} [OfNat α 0] [OfNat α 1] [Sub α] [Mul α] [Div α]

/-- per-cell `LuDecompositionDoolittle::Decompose` -/
def doolittleCell (rows : List DRow) (A : Array α) (LU : Array α × Array α) : Array α × Array α :=
  rows.foldl (fun (LU : Array α × Array α) r =>
    let U := r.u.foldl (fun U e =>
      let U := wr U e.t (match e.a with | some a => rd A a | none => 0)
      e.pairs.foldl (fun U p => wr U e.t (rd U e.t - rd LU.1 p.1 * rd U p.2)) U) LU.2
    let L := wr LU.1 r.lii 1
    let L := r.l.foldl (fun L e =>
      let L := wr L e.t (match e.a with | some a => rd A a | none => 0)
      let L := e.pairs.foldl (fun L p => wr L e.t (rd L e.t - rd L p.1 * rd U p.2)) L
      wr L e.t (rd L e.t / rd U r.uii)) L
    (L, U)) LU
end Num

/-! ### Mozart (separate L, U) -/

structure MInit where
  lii : Nat
  ujiAji : List (Nat × Nat)
  ljiAji : List (Nat × Nat)
  fillU : List Nat
  fillL : List Nat
  deriving Repr, BEq, Inhabited

structure MK where
  uik : Nat
  ujk : List (Nat × Nat)   -- (ujk, lji)
  ljk : List (Nat × Nat)   -- (ljk, lji)
  deriving Repr, BEq, Inhabited

structure MRow where
  uii : Nat
  lji : List Nat
  ks : List MK
  deriving Repr, BEq, Inhabited

def mozartInit (A Lp Up : Pattern) : List MInit :=
  let n := A.n
  (List.range n).map fun i =>
    { lii := Lp.rk i i
      ujiAji := (List.range (i + 1)).filterMap fun j => if A.zero? j i then none else some (Up.rk j i, A.rk j i)
      fillU := (List.range (i + 1)).filterMap fun j => if A.zero? j i && !Up.zero? j i then some (Up.rk j i) else none
      ljiAji := (rangeFrom (i + 1) n).filterMap fun j => if A.zero? j i then none else some (Lp.rk j i, A.rk j i)
      fillL := (rangeFrom (i + 1) n).filterMap fun j => if A.zero? j i && !Lp.zero? j i then some (Lp.rk j i) else none }

def mozartRows (A Lp Up : Pattern) : List MRow :=
  let n := A.n
  (List.range n).map fun i =>
    { uii := Up.rk i i
      lji := (rangeFrom (i + 1) n).filterMap fun j => if Lp.zero? j i then none else some (Lp.rk j i)
      ks := (rangeFrom (i + 1) n).filterMap fun k =>
        if Up.zero? i k then none else some
          { uik := Up.rk i k
            ujk := (rangeFrom (i + 1) (k + 1)).filterMap fun j => if Lp.zero? j i then none else some (Up.rk j k, Lp.rk j i)
            ljk := (rangeFrom (k + 1) n).filterMap fun j => if Lp.zero? j i then none else some (Lp.rk j k, Lp.rk j i) } }

structure MozartStreams where
  liiNujiNlji : List (Nat × Nat × Nat)
  ujiAji : List (Nat × Nat)
  ljiAji : List (Nat × Nat)
  fillUji : List Nat
  fillLji : List Nat
  uiiNjNk : List (Nat × Nat × Nat)
  lji : List Nat
  nujkNljkUik : List (Nat × Nat × Nat)
  ujkLji : List (Nat × Nat)
  ljkLji : List (Nat × Nat)
  deriving Repr, BEq

def flattenMozart (ini : List MInit) (rows : List MRow) : MozartStreams :=
  { liiNujiNlji := ini.map fun r => (r.lii, r.ujiAji.length, r.ljiAji.length)
    ujiAji := ini.flatMap (·.ujiAji)
    ljiAji := ini.flatMap (·.ljiAji)
    fillUji := ini.flatMap (·.fillU)
    fillLji := ini.flatMap (·.fillL)
    uiiNjNk := rows.map fun r => (r.uii, r.lji.length, r.ks.length)
    lji := rows.flatMap (·.lji)
    nujkNljkUik := rows.flatMap fun r => r.ks.map fun k => (k.ujk.length, k.ljk.length, k.uik)
    ujkLji := rows.flatMap fun r => r.ks.flatMap (·.ujk)
    ljkLji := rows.flatMap fun r => r.ks.flatMap (·.ljk) }

section Num
variable {α : Type} [OfNat α 0] [OfNat α 1] [Sub α] [Mul α] [Div α]

/-- per-cell `LuDecompositionMozart::Decompose` -/
def mozartCell (ini : List MInit) (rows : List MRow) (A : Array α) (LU : Array α × Array α) : Array α × Array α :=
  let LU := ini.foldl (fun (LU : Array α × Array α) r =>
    let U := r.ujiAji.foldl (fun U p => wr U p.1 (rd A p.2)) LU.2
    let L := wr LU.1 r.lii 1
    let L := r.ljiAji.foldl (fun L p => wr L p.1 (rd A p.2)) L
    (L, U)) LU
  let U := ini.foldl (fun U r => r.fillU.foldl (fun U i => wr U i 0) U) LU.2
  let L := ini.foldl (fun L r => r.fillL.foldl (fun L i => wr L i 0) L) LU.1
  rows.foldl (fun (LU : Array α × Array α) r =>
    let inv : α := 1 / rd LU.2 r.uii
    let L := r.lji.foldl (fun L i => wr L i (rd L i * inv)) LU.1
    r.ks.foldl (fun (LU : Array α × Array α) k =>
      let U := k.ujk.foldl (fun U p => wr U p.1 (rd U p.1 - rd LU.1 p.2 * rd U k.uik)) LU.2
      let L := k.ljk.foldl (fun L p => wr L p.1 (rd L p.1 - rd L p.2 * rd U k.uik)) LU.1
      (L, U)) (L, LU.2)) (L, U)
end Num

/-! ### Doolittle in place -/

structure DIEntry where
  t : Nat
  pairs : List (Nat × Nat)
  deriving Repr, BEq, Inhabited

structure DIRow where
  aii : Nat
  u : List DIEntry
  l : List DIEntry
  deriving Repr, BEq, Inhabited

def doolittleInPlaceRows (P : Pattern) : List DIRow :=
  let n := P.n
  (List.range n).map fun i =>
    { aii := P.rk i i
      u := (rangeFrom i n).filterMap fun k =>
        if P.zero? i k then none else some
          ⟨P.rk i k, (List.range i).filterMap fun j => if P.zero? i j || P.zero? j k then none else some (P.rk i j, P.rk j k)⟩
      l := (rangeFrom (i + 1) n).filterMap fun k =>
        if P.zero? k i then none else some
          ⟨P.rk k i, (List.range i).filterMap fun j => if P.zero? k j || P.zero? j i then none else some (P.rk k j, P.rk j i)⟩ }

structure DoolittleInPlaceStreams where
  nikNkiAii : List (Nat × Nat × Nat)
  aikNjk : List (Nat × Nat)
  aijAjk : List (Nat × Nat)
  akiNji : List (Nat × Nat)
  akjAji : List (Nat × Nat)
  deriving Repr, BEq

def flattenDoolittleInPlace (rows : List DIRow) : DoolittleInPlaceStreams :=
  { nikNkiAii := rows.map fun r => (r.u.length, r.l.length, r.aii)
    aikNjk := rows.flatMap fun r => r.u.map fun e => (e.t, e.pairs.length)
    aijAjk := rows.flatMap fun r => r.u.flatMap (·.pairs)
    akiNji := rows.flatMap fun r => r.l.map fun e => (e.t, e.pairs.length)
    akjAji := rows.flatMap fun r => r.l.flatMap (·.pairs) }

section Num
variable {α : Type} [OfNat α 0] [OfNat α 1] [Sub α] [Mul α] [Div α]

def doolittleInPlaceCell (rows : List DIRow) (M : Array α) : Array α :=
  rows.foldl (fun M r =>
    let M := r.u.foldl (fun M e => e.pairs.foldl (fun M p => wr M e.t (rd M e.t - rd M p.1 * rd M p.2)) M) M
    r.l.foldl (fun M e =>
      let M := e.pairs.foldl (fun M p => wr M e.t (rd M e.t - rd M p.1 * rd M p.2)) M
      wr M e.t (rd M e.t / rd M r.aii)) M) M
end Num

/-! ### Mozart in place -/

structure MIK where
  aik : Nat
  pairs : List (Nat × Nat)  -- (ajk, aji)
  deriving Repr, BEq, Inhabited

structure MIRow where
  aii : Nat
  aji : List Nat
  ks : List MIK
  deriving Repr, BEq, Inhabited

def mozartInPlaceRows (P : Pattern) : List MIRow :=
  let n := P.n
  (List.range n).map fun i =>
    { aii := P.rk i i
      aji := (rangeFrom (i + 1) n).filterMap fun j => if P.zero? j i then none else some (P.rk j i)
      ks := (rangeFrom (i + 1) n).filterMap fun k =>
        if P.zero? i k then none else some
          ⟨P.rk i k, (rangeFrom (i + 1) n).filterMap fun j => if P.zero? j i then none else some (P.rk j k, P.rk j i)⟩ }

structure MozartInPlaceStreams where
  aiiNjiNki : List (Nat × Nat × Nat)
  aji : List Nat
  aikNjk : List (Nat × Nat)
  ajkAji : List (Nat × Nat)
  deriving Repr, BEq

def flattenMozartInPlace (rows : List MIRow) : MozartInPlaceStreams :=
  { aiiNjiNki := rows.map fun r => (r.aii, r.aji.length, r.ks.length)
    aji := rows.flatMap (·.aji)
    aikNjk := rows.flatMap fun r => r.ks.map fun k => (k.aik, k.pairs.length)
    ajkAji := rows.flatMap fun r => r.ks.flatMap (·.pairs) }

section Num
variable {α : Type} [OfNat α 0] [OfNat α 1] [Sub α] [Mul α] [Div α]

def mozartInPlaceCell (rows : List MIRow) (M : Array α) : Array α :=
  rows.foldl (fun M r =>
    let inv : α := 1 / rd M r.aii
    let M := r.aji.foldl (fun M i => wr M i (rd M i * inv)) M
    r.ks.foldl (fun M k =>
      let aik := rd M k.aik
      k.pairs.foldl (fun M p => wr M p.1 (rd M p.1 - rd M p.2 * aik)) M) M) M
end Num

/-! ### linear solvers -/

structure SubRow where
  pairs : List (Nat × Nat)   -- (matrix element rank, column j)
  diag : Nat
  deriving Repr, BEq, Inhabited

/-- `LinearSolver` constructor: forward rows (ascending i) and backward rows (descending i) -/
def solverRows (Lp Up : Pattern) : List SubRow × List SubRow :=
  let n := Lp.n
  ((List.range n).map fun i =>
      ⟨(List.range i).filterMap fun j => if Lp.zero? i j then none else some (Lp.rk i j, j), Lp.rk i i⟩,
   (List.range n).reverse.map fun i =>
      ⟨(rangeFrom (i + 1) n).filterMap fun j => if Up.zero? i j then none else some (Up.rk i j, j), Up.rk i i⟩)

section Num
variable {α : Type} [OfNat α 0] [Sub α] [Mul α] [Div α]

/-- per-cell `LinearSolver::Solve` (separate L, U) -/
def solveCell (fw bw : List SubRow) (L U x : Array α) : Array α :=
  let (x, _) := fw.foldl (fun (s : Array α × Nat) r =>
    let x := r.pairs.foldl (fun x p => wr x s.2 (rd x s.2 - rd L p.1 * rd x p.2)) s.1
    (wr x s.2 (rd x s.2 / rd L r.diag), s.2 + 1)) (x, 0)
  let (x, _) := bw.foldl (fun (s : Array α × Nat) r =>
    let x := r.pairs.foldl (fun x p => wr x s.2 (rd x s.2 - rd U p.1 * rd x p.2)) s.1
    (wr x s.2 (rd x s.2 / rd U r.diag), if s.2 = 0 then 0 else s.2 - 1)) (x, x.size - 1)
  x

/-- per-cell `LinearSolverInPlace::Solve` -/
def solveInPlaceCell (fw bw : List SubRow) (M x : Array α) : Array α :=
  let (x, _) := fw.foldl (fun (s : Array α × Nat) r =>
    let x := r.pairs.foldl (fun x p => wr x s.2 (rd x s.2 - rd M p.1 * rd x p.2)) s.1
    (x, s.2 + 1)) (x, 0)
  let (x, _) := bw.foldl (fun (s : Array α × Nat) r =>
    let x := r.pairs.foldl (fun x p => wr x s.2 (rd x s.2 - rd M p.1 * rd x p.2)) s.1
    (wr x s.2 (rd x s.2 / rd M r.diag), if s.2 = 0 then 0 else s.2 - 1)) (x, x.size - 1)
  x
end Num

/-! ### one record per configured linear-algebra variant -/

inductive LUKind | doolittle | mozart | doolittleInPlace | mozartInPlace
  deriving Repr, BEq, DecidableEq, Inhabited

def LUKind.inPlace : LUKind → Bool
  | .doolittle | .mozart => false
  | _ => true

/-- everything `SolverBuilder::Build` derives from the Jacobian pattern for one LU variant -/
structure LinAlg where
  kind : LUKind
  A : Pattern            -- pattern of `state.jacobian_` (the ALU pattern for in-place variants)
  Lp : Pattern           -- `state.lower_matrix_` (= A for in-place)
  Up : Pattern
  dRows : List DRow := []
  mInit : List MInit := []
  mRows : List MRow := []
  diRows : List DIRow := []
  miRows : List MIRow := []
  fw : List SubRow
  bw : List SubRow
  deriving Inhabited

def LinAlg.build (kind : LUKind) (jac : Pattern) : LinAlg :=
  let az := fun r c => jac.zero? r c
  let mk := fun s => Pattern.mk' jac.n jac.csc jac.L s
  match kind with
  | .doolittle =>
    let (l, u) := doolittleSymbolic jac.n az
    let Lp := mk l; let Up := mk u
    let (fw, bw) := solverRows Lp Up
    { kind, A := jac, Lp, Up, dRows := doolittleRows jac Lp Up, fw, bw }
  | .mozart =>
    let (l, u) := mozartSymbolic jac.n az
    let Lp := mk l; let Up := mk u
    let (fw, bw) := solverRows Lp Up
    { kind, A := jac, Lp, Up, mInit := mozartInit jac Lp Up, mRows := mozartRows jac Lp Up, fw, bw }
  | .doolittleInPlace =>
    let P := mk (doolittleInPlaceSymbolic jac.n az)
    let (fw, bw) := solverRows P P
    { kind, A := P, Lp := P, Up := P, diRows := doolittleInPlaceRows P, fw, bw }
  | .mozartInPlace =>
    let P := mk (mozartInPlaceSymbolic jac.n az)
    let (fw, bw) := solverRows P P
    { kind, A := P, Lp := P, Up := P, miRows := mozartInPlaceRows P, fw, bw }

/-- separate-L/U variants with L and U stored in their own (possibly different) orders -/
def LinAlg.buildMixed (kind : LUKind) (jac : Pattern) (cscL cscU : Bool) : LinAlg :=
  let az := fun r c => jac.zero? r c
  let (l, u) := match kind with
    | .mozart => mozartSymbolic jac.n az
    | _ => doolittleSymbolic jac.n az
  let Lp := Pattern.mk' jac.n cscL jac.L l
  let Up := Pattern.mk' jac.n cscU jac.L u
  let (fw, bw) := solverRows Lp Up
  match kind with
  | .mozart => { kind, A := jac, Lp, Up, mInit := mozartInit jac Lp Up, mRows := mozartRows jac Lp Up, fw, bw }
  | _ => { kind := .doolittle, A := jac, Lp, Up, dRows := doolittleRows jac Lp Up, fw, bw }

end Micm
