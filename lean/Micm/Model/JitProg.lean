/-
L1 model of the functions the LLVM backend generates at run time (jit_process_set.hpp,
jit_lu_decomposition_doolittle.inl, jit_linear_solver.inl, jit_rosenbrock.hpp).

Every generator emits the same shape of code: a straight sequence of *lane loops* `for i in 0 … L-1`, each of
which is one store `dst[i + c] := e` whose right-hand side is an expression over loads `arg_k[i + c']`, loads of
the `alloca`'d lane buffer `buf[i]`, floating-point constants and `fmul/fadd/fsub/fdiv`.  A generated function
is therefore modelled as a `JProg`: the list of those loops.  `JProg.run` executes the loops one after the
other, each loop lane after lane (the order in which the generated machine code before optimisation does it).

Tie to the code: `harness/jit_driver.cpp ir` makes the implementation generate its functions with the
`MICM_VERIF` sink installed, `tools/jit_ir.py` reads the textual IR back into this very shape (checking the loop
control of every block: phi from 0, step 1, `icmp sge next, L`) and the driver prints `genForcing`/`genJacobian`
… for the tables of the same `ProcessSet`; the two programs must be identical, loop for loop.
`Properties/C18b.lean` proves that running the generated program computes what the vectorised C++ kernel of the
CPU backend computes (`Model/FlatKernels*.lean`), for every table, every `L` and every input.
-/
import Micm.Model.FlatKernels3
namespace Micm

/-- a memory location addressed inside a lane loop; `i` is the loop index -/
inductive JLoc where
  | arg (a : Nat) (off : Nat)   -- `arg_a[i + off]`, `a ∈ {0,1,2}`
  | buf                         -- the `alloca`'d `[L x double]` buffer at `[i]`
  deriving Repr, DecidableEq, Inhabited

inductive JExpr (α : Type) where
  | ld (l : JLoc)
  | const (c : α)
  | scalar                      -- the `double` argument of the function (`alpha`)
  | mul (a b : JExpr α)
  | add (a b : JExpr α)
  | sub (a b : JExpr α)
  | div (a b : JExpr α)
  deriving Inhabited

/-- one lane loop: `for i in 0 … L-1: dst[i] := e[i]` -/
structure JLoop (α : Type) where
  dst : JLoc
  e : JExpr α
  deriving Inhabited

abbrev JProg (α : Type) := List (JLoop α)

/-- the memory a generated function sees: its three pointer arguments and its lane buffer -/
structure JMem (α : Type) where
  a0 : Array α
  a1 : Array α
  a2 : Array α
  buf : Array α
  s : α            -- the `double` argument, for the functions that have one
  deriving Inhabited

section
variable {α : Type} [OfNat α 0] [Add α] [Sub α] [Mul α] [Div α]

def JMem.load (m : JMem α) (i : Nat) : JLoc → α
  | .arg 0 off => rd m.a0 (i + off)
  | .arg 1 off => rd m.a1 (i + off)
  | .arg _ off => rd m.a2 (i + off)
  | .buf => rd m.buf i

def JMem.store (m : JMem α) (i : Nat) (v : α) : JLoc → JMem α
  | .arg 0 off => { m with a0 := wr m.a0 (i + off) v }
  | .arg 1 off => { m with a1 := wr m.a1 (i + off) v }
  | .arg _ off => { m with a2 := wr m.a2 (i + off) v }
  | .buf => { m with buf := wr m.buf i v }

def JExpr.eval (m : JMem α) (i : Nat) : JExpr α → α
  | .ld l => m.load i l
  | .const c => c
  | .scalar => m.s
  | .mul a b => a.eval m i * b.eval m i
  | .add a b => a.eval m i + b.eval m i
  | .sub a b => a.eval m i - b.eval m i
  | .div a b => a.eval m i / b.eval m i

/-- one lane loop (the generated loop is a do-while: with `L ≥ 1` it runs lanes `0 … L-1`) -/
def JLoop.run (L : Nat) (lp : JLoop α) (m : JMem α) : JMem α :=
  (List.range L).foldl (fun m i => m.store i (lp.e.eval m i) lp.dst) m

def JProg.run (L : Nat) (p : JProg α) (m : JMem α) : JMem α :=
  p.foldl (fun m lp => lp.run L m) m

/-! ### the generators, loop for loop as in the C++ -/

/-- `JitProcessSet::GenerateForcingFunction`: arguments (rate constants, state, forcing) -/
def genForcingGo (L : Nat) : List Nat → List Nat → List Nat → List Nat → List α → Nat → JProg α
  | nr :: nrs, np :: nps, rids, pids, ylds, iRxn =>
    let rs := rids.take nr
    let ps := (pids.take np).zip (ylds.take np)
    [⟨.buf, .ld (.arg 0 (iRxn * L))⟩]
      ++ rs.map (fun i => ⟨.buf, .mul (.ld .buf) (.ld (.arg 1 (i * L)))⟩)
      ++ rs.map (fun i => ⟨.arg 2 (i * L), .sub (.ld (.arg 2 (i * L))) (.ld .buf)⟩)
      ++ ps.map (fun p => ⟨.arg 2 (p.1 * L), .add (.ld (.arg 2 (p.1 * L))) (.mul (.ld .buf) (.const p.2))⟩)
      ++ genForcingGo L nrs nps (rids.drop nr) (pids.drop np) (ylds.drop np) (iRxn + 1)
  | _, _, _, _, _, _ => []

def PSTables.genForcing (t : PSTables α) (L : Nat) : JProg α :=
  genForcingGo L t.nReact t.nProd t.reactIds t.prodIds t.yields 0

/-- `JitProcessSet::GenerateJacobianFunction`: arguments (rate constants, state, jacobian); `flat` are the element
    ranks of `jacobian_flat_ids_` (the C++ table holds `rank * L`, which is the constant the code embeds) -/
def genJacobianGo (L : Nat) : List ProcessInfo → List Nat → List α → List Nat → JProg α
  | info :: infos, jr, jy, flat =>
    let deps := jr.take info.nDep
    let flatA := flat.take (info.nDep + 1)
    let flat' := flat.drop (info.nDep + 1)
    let flatB := (flat'.take info.nProd).zip (jy.take info.nProd)
    [⟨.buf, .ld (.arg 0 (info.pid * L))⟩]
      ++ deps.map (fun i => ⟨.buf, .mul (.ld .buf) (.ld (.arg 1 (i * L)))⟩)
      ++ flatA.map (fun f => ⟨.arg 2 (f * L), .add (.ld (.arg 2 (f * L))) (.ld .buf)⟩)
      ++ flatB.map (fun p => ⟨.arg 2 (p.1 * L), .sub (.ld (.arg 2 (p.1 * L))) (.mul (.ld .buf) (.const p.2))⟩)
      ++ genJacobianGo L infos (jr.drop info.nDep) (jy.drop info.nProd) (flat'.drop info.nProd)
  | [], _, _, _ => []

def PSTables.genJacobian (t : PSTables α) (flat : List Nat) (L : Nat) : JProg α :=
  genJacobianGo L t.jInfo t.jReactIds t.jYields flat

/-- right-hand side of the `Uik_eq_Aik` / `Uik_eq_zero` (resp. `Lki_…`) loops -/
def jInit (L : Nat) (a : Option Nat) : JExpr α :=
  match a with
  | some a => .ld (.arg 0 (a * L))
  | none => .const 0

/-- `JitLuDecompositionDoolittle::GenerateDecomposeFunction`: arguments (A, lower, upper); the tables are the
    structured rows of `LuDecompositionDoolittle::Initialize` (element ranks; the C++ tables hold `rank * L`) -/
def genDoolittle [OfNat α 1] (L : Nat) (rows : List DRow) : JProg α :=
  rows.flatMap fun r =>
    (r.u.flatMap fun e =>
      [⟨.arg 2 (e.t * L), jInit L e.a⟩]
        ++ e.pairs.map fun p =>
          ⟨.arg 2 (e.t * L), .sub (.ld (.arg 2 (e.t * L))) (.mul (.ld (.arg 1 (p.1 * L))) (.ld (.arg 2 (p.2 * L))))⟩)
    ++ [⟨.arg 1 (r.lii * L), .const 1⟩]
    ++ (r.l.flatMap fun e =>
      [⟨.arg 1 (e.t * L), jInit L e.a⟩]
        ++ (e.pairs.map fun p =>
          ⟨.arg 1 (e.t * L), .sub (.ld (.arg 1 (e.t * L))) (.mul (.ld (.arg 1 (p.1 * L))) (.ld (.arg 2 (p.2 * L))))⟩)
        ++ [⟨.arg 1 (e.t * L), .div (.ld (.arg 1 (e.t * L))) (.ld (.arg 2 (r.uii * L)))⟩])

/-- forward rows of `JitLinearSolver::GenerateSolveFunction` (arguments x, L, U), row counter `i` upwards -/
def genSolveFw (L : Nat) : List SubRow → Nat → JProg α
  | r :: rs, i =>
    (r.pairs.map fun p =>
      ⟨.arg 0 (i * L), .sub (.ld (.arg 0 (i * L))) (.mul (.ld (.arg 1 (p.1 * L))) (.ld (.arg 0 (p.2 * L))))⟩)
    ++ [⟨.arg 0 (i * L), .div (.ld (.arg 0 (i * L))) (.ld (.arg 1 (r.diag * L)))⟩]
    ++ genSolveFw L rs (i + 1)
  | [], _ => []

/-- backward rows: `offset = L * size; for each row: offset -= L` -/
def genSolveBw (L : Nat) : List SubRow → Nat → JProg α
  | r :: rs, k =>
    (r.pairs.map fun p =>
      ⟨.arg 0 ((k - 1) * L), .sub (.ld (.arg 0 ((k - 1) * L))) (.mul (.ld (.arg 0 (p.2 * L))) (.ld (.arg 2 (p.1 * L))))⟩)
    ++ [⟨.arg 0 ((k - 1) * L), .div (.ld (.arg 0 ((k - 1) * L))) (.ld (.arg 2 (r.diag * L)))⟩]
    ++ genSolveBw L rs (k - 1)
  | [], _ => []

def genSolve (L : Nat) (fw bw : List SubRow) : JProg α :=
  genSolveFw L fw 0 ++ genSolveBw L bw bw.length

/-- `JitRosenbrockSolver::GenerateAlphaMinusJacobian`: arguments (jacobian, alpha); `diag` = ranks of the diagonal
    elements (the C++ `DiagonalIndices(0)` are `rank * L`) -/
def genAlpha (L : Nat) (diag : List Nat) : JProg α :=
  diag.map fun d => ⟨.arg 0 (d * L), .add (.ld (.arg 0 (d * L))) .scalar⟩

end
end Micm
