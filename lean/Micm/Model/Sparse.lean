/-
L1 model of the four sparse orderings (CSR/CSC x standard/vector(L)):
`RowIdsVector`, `RowStartVector` (the source's loop, literally), `VectorIndex` with its three-way
error order, `IsZero`, `DiagonalIndices`, `VectorSize`, `AddToDiagonal`, builder range check.
-/
import Micm.Model.Basic
namespace Micm

inductive MatErr | rowSizeMismatch | invalidVector | elementOutOfRange | missingBlockIndex | zeroElementAccess
  deriving Repr, DecidableEq, Inhabited

/-- `MicmMatrixErrc` codes (cross-checked against the header by the translator, see Gen). -/
def MatErr.code : MatErr → Nat
  | .rowSizeMismatch => 1 | .invalidVector => 2 | .elementOutOfRange => 3
  | .missingBlockIndex => 4 | .zeroElementAccess => 5

/-- `while (curr < target) starts[(curr++)+1] = total;` -/
def fillTo (starts : Array Nat) (curr target total : Nat) : Array Nat × Nat :=
  if _h : curr < target then fillTo (starts.setIfInBounds (curr + 1) total) (curr + 1) target total
  else (starts, curr)
termination_by target - curr

structure RSAcc where
  starts : Array Nat
  total : Nat
  curr : Nat

def rsStep (a : RSAcc) (e : Pair) : RSAcc :=
  let (s, c) := fillTo a.starts a.curr e.1 a.total
  ⟨s, a.total + 1, c⟩

/-- mirrors `RowStartVector(block_size, non_zero_elements)` (elements already in storage order:
    (row,col) for CSR, (col,row) for CSC). Trailing empty rows keep `0`, as in the source. -/
def rowStart (n : Nat) (elems : List Pair) : Array Nat :=
  let a := elems.foldl rsStep ⟨Array.replicate (n + 1) 0, 0, 0⟩
  a.starts.setIfInBounds (a.curr + 1) a.total

/-- Ordering part of a `SparseMatrix`: block size, storage order, group length
    (`L = 0` encodes the *standard* ordering, `L ≥ 1` the vector ordering of that length). -/
structure Pattern where
  n : Nat
  csc : Bool
  L : Nat
  elems : List Pair      -- in storage order: CSR (row,col) sorted; CSC (col,row) sorted
  ids : Array Nat        -- row_ids_ / column_ids_
  start : Array Nat      -- row_start_ / column_start_
  deriving Repr, Inhabited

/-- constructor from a `std::set` of (row, col) pairs (sorted, duplicate free) -/
def Pattern.mk' (n : Nat) (csc : Bool) (L : Nat) (set : List Pair) : Pattern :=
  let elems := if csc then setOfList (set.map fun e => (e.2, e.1)) else set
  { n, csc, L, elems, ids := (elems.map (·.2)).toArray, start := rowStart n elems }

def Pattern.nnz (p : Pattern) : Nat := p.ids.size

/-- `std::find(begin, end, x)` over `ids[b, e)`; an empty or reversed range finds nothing
    (libstdc++ behaviour for random-access iterators; happens only for trailing empty rows). -/
def findIn (ids : Array Nat) (x : Nat) (b e : Nat) : Option Nat :=
  if _h : b < e then
    if ids.getD b 0 = x then some b else findIn ids x (b + 1) e
  else none
termination_by e - b

/-- position of (row, col) in the per-block element order (= `elem - ids.begin()`), with the
    source's checks in the source's order (block check is done by the caller). -/
def Pattern.rank (p : Pattern) (row col : Nat) : Except MatErr Nat :=
  let n1 := p.start.size - 1
  if row ≥ n1 || col ≥ n1 then .error .elementOutOfRange
  else
    let (maj, mnr) := if p.csc then (col, row) else (row, col)
    match findIn p.ids mnr (p.start.getD maj 0) (p.start.getD (maj + 1) 0) with
    | some k => .ok k
    | none => .error .zeroElementAccess

def Pattern.isZero (p : Pattern) (row col : Nat) : Except MatErr Bool :=
  match p.rank row col with
  | .ok _ => .ok false
  | .error .zeroElementAccess => .ok true
  | .error e => .error e

/-- `VectorSize(number_of_blocks)` -/
def Pattern.vectorSize (p : Pattern) (blocks : Nat) : Nat :=
  if p.L = 0 then blocks * p.nnz else ((blocks + p.L - 1) / p.L) * p.L * p.nnz

/-- `VectorIndex(number_of_blocks, block, row, col)` -/
def Pattern.vectorIndex (p : Pattern) (blocks block row col : Nat) : Except MatErr Nat :=
  let n1 := p.start.size - 1
  if row ≥ n1 || col ≥ n1 || block ≥ blocks then .error .elementOutOfRange
  else match p.rank row col with
    | .ok k => .ok (if p.L = 0 then k + block * p.nnz else k * p.L + block % p.L + (block / p.L) * p.L * p.nnz)
    | .error e => .error e

/-- storage slot of element rank `k` of block `b` (total function used by the kernels' address maps) -/
def Pattern.slot (p : Pattern) (block k : Nat) : Nat :=
  if p.L = 0 then k + block * p.nnz else k * p.L + block % p.L + (block / p.L) * p.L * p.nnz

/-- `DiagonalIndices(number_of_blocks, 0)` : flat ids of the present diagonal elements of block 0 -/
def Pattern.diagonalIndices (p : Pattern) (blocks : Nat) : List Nat :=
  (List.range (p.start.size - 1)).filterMap fun i =>
    match p.vectorIndex blocks 0 i i with
    | .ok k => some k
    | .error _ => none

/-- ranks of the present diagonal elements -/
def Pattern.diagRanks (p : Pattern) : List Nat :=
  (List.range p.n).filterMap fun i => match p.rank i i with | .ok k => some k | .error _ => none

/-- non-throwing rank used by table builders: absent ⇒ sentinel `nnz` (an out-of-range slot;
    the driver's checked mode reports any table entry `≥ nnz` as `ub`). -/
def Pattern.rk (p : Pattern) (row col : Nat) : Nat :=
  match p.rank row col with | .ok k => k | .error _ => p.nnz

def Pattern.zero? (p : Pattern) (row col : Nat) : Bool :=
  match p.rank row col with | .ok _ => false | .error _ => true

/-- `SparseMatrixBuilder::WithElement` -/
def builderWithElement (n : Nat) (s : List Pair) (x y : Nat) : Except MatErr (List Pair) :=
  if x ≥ n || y ≥ n then .error .elementOutOfRange else .ok (setInsert (x, y) s)

/-- `BuildJacobian`: declared elements plus the full diagonal -/
def buildJacobianSet (n : Nat) (elems : List Pair) : List Pair :=
  (List.range n).foldl (fun s i => setInsert (i, i) s) (setOfList elems)

/-- `AddToDiagonal` on flat storage, standard ordering: every block, every diagonal id -/
def addToDiagonalFlat {α} [OfNat α 0] [Add α] (p : Pattern) (blocks : Nat) (data : Array α) (v : α) : Array α :=
  let diag := p.diagonalIndices blocks
  if p.L = 0 then
    (List.range blocks).foldl (fun d b => diag.foldl (fun d i => wr d (b * p.nnz + i) (rd d (b * p.nnz + i) + v)) d) data
  else
    -- `for (i_group = 0; i_group < number_of_blocks; i_group += L)`: all L lanes, padding included
    (List.range ((blocks + p.L - 1) / p.L)).foldl (fun d g =>
      diag.foldl (fun d i => (List.range p.L).foldl (fun d l =>
        let a := g * p.L * p.nnz + i + l
        wr d a (rd d a + v)) d) d) data

end Micm
