/-
L1 model of `AbstractRosenbrockSolver::Solve` (rosenbrock.inl), `NormalizedError` (both layouts),
`AlphaMinusJacobian`/`LinearFactor`, and `Solver::Solve`'s clamp, on logical per-cell data.
The nested `while` loops are flattened into one loop whose iteration is one *attempt*
(preceded, when a new step starts, by the step prologue); fuel bounds the number of attempts.
Every attempt is recorded in a ghost trace.
-/
import Micm.Model.ProcessSet
import Micm.Model.LU
namespace Micm

abbrev Mat (α : Type) := Array (Array α)

structure Consts (α : Type) where
  deltaMin : α      -- DELTA_MIN = 1.0e-6
  errorMin : α      -- 1.0e-10
  tenth : α         -- 0.1
  ten : α           -- 10
  deriving Inhabited

structure RosParams (α : Type) where
  stages : Nat
  a : Array α
  c : Array α
  m : Array α
  e : Array α
  gamma0 : α
  newF : Array Bool
  order : α
  roundOff : α
  fmin : α
  fmax : α
  rejDec : α
  safety : α
  hmin : α
  hmax : α
  hstart : α
  maxSteps : Nat
  deriving Inhabited

inductive Status
  | notYetCalled | running | converged | convergenceExceededMaxSteps | stepSizeTooSmall
  | repeatedlySingularMatrix | nanDetected | infDetected | acceptingUnconvergedIntegration
  | outOfFuel   -- model only: the fuel bound was hit (the implementation would still be looping)
  deriving Repr, BEq, DecidableEq, Inhabited

structure Stats where
  functionCalls : Nat := 0
  jacobianUpdates : Nat := 0
  numberOfSteps : Nat := 0
  accepted : Nat := 0
  rejected : Nat := 0
  decompositions : Nat := 0
  solves : Nat := 0
  deriving Repr, BEq, DecidableEq, Inhabited

/-- static part of a built solver (what `SolverBuilder::Build` produces), for one configuration -/
structure SolverCfg (α : Type) where
  nSpecies : Nat
  L : Nat                      -- dense layout: 0 = row-major `Matrix`, ≥1 = `VectorMatrix<L>`
  tables : PSTables α
  flatIds : List Nat           -- jacobian flat ids as ranks in `la.A`
  la : LinAlg
  diag : List Nat              -- ranks of the diagonal elements of `la.A`
  deriving Inhabited

/-- scratch storage carried by a `State` between calls (contents must never matter: C11) -/
structure Scratch (α : Type) where
  jac : Mat α
  lower : Mat α
  upper : Mat α
  ynew : Mat α
  f0 : Mat α
  k : Array (Mat α)
  yerr : Mat α
  deriving Inhabited

structure Attempt (α : Type) where
  h : α
  alpha : α                    -- value passed to LinearFactor
  matrix : Mat α               -- matrix handed to Factor (per cell, element ranks)
  error : α
  accepted : Bool
  deriving Inhabited

section
variable {α : Type} [OfNat α 0] [OfNat α 1] [Add α] [Sub α] [Mul α] [Div α]

def fillM (m : Mat α) (v : α) : Mat α := m.map fun r => r.map fun _ => v
def axpyRow (a : α) (x y : Array α) : Array α := y.mapIdx fun i yi => yi + a * rd x i
/-- `y.Axpy(alpha, x)` -/
def axpyM (a : α) (x y : Mat α) : Mat α := y.mapIdx fun c yr => axpyRow a (x.getD c #[]) yr

def SolverCfg.forcing (s : SolverCfg α) (k y f : Mat α) : Mat α :=
  f.mapIdx fun c fr => s.tables.addForcingCell (k.getD c #[]) (y.getD c #[]) fr

def SolverCfg.jacobian (s : SolverCfg α) (k y J : Mat α) : Mat α :=
  J.mapIdx fun c Jr => s.tables.subtractJacobianCell s.flatIds (k.getD c #[]) (y.getD c #[]) Jr

/-- `AlphaMinusJacobian`: add `alpha` to every diagonal element of every cell -/
def SolverCfg.alphaMinusJacobian (s : SolverCfg α) (J : Mat α) (alpha : α) : Mat α :=
  J.map fun Jr => s.diag.foldl (fun Jr i => wr Jr i (rd Jr i + alpha)) Jr

/-- `linear_solver_.Factor(...)` for the configured variant; returns (jac, lower, upper) -/
def SolverCfg.factor (s : SolverCfg α) (J Lo Up : Mat α) : Mat α × Mat α × Mat α :=
  match s.la.kind with
  | .doolittle =>
    let r := J.mapIdx fun c A => doolittleCell s.la.dRows A (Lo.getD c #[], Up.getD c #[])
    (J, r.map (·.1), r.map (·.2))
  | .mozart =>
    let r := J.mapIdx fun c A => mozartCell s.la.mInit s.la.mRows A (Lo.getD c #[], Up.getD c #[])
    (J, r.map (·.1), r.map (·.2))
  | .doolittleInPlace => (J.map fun A => doolittleInPlaceCell s.la.diRows A, Lo, Up)
  | .mozartInPlace => (J.map fun A => mozartInPlaceCell s.la.miRows A, Lo, Up)

/-- `linear_solver_.Solve(x, ...)` -/
def SolverCfg.linSolve (s : SolverCfg α) (J Lo Up x : Mat α) : Mat α :=
  if s.la.kind.inPlace then x.mapIdx fun c xr => solveInPlaceCell s.la.fw s.la.bw (J.getD c #[]) xr
  else x.mapIdx fun c xr => solveCell s.la.fw s.la.bw (Lo.getD c #[]) (Up.getD c #[]) xr

/-- one term of the error norm -/
@[inline] def errTerm (o : Ops α) (atol : Array α) (rtol : α) (y ynew err : Mat α) (c v : Nat) : α :=
  let yv := rd (y.getD c #[]) v
  let ynv := rd (ynew.getD c #[]) v
  let eos := rd (err.getD c #[]) v / (rd atol v + rtol * cmax o (o.abs yv) (o.abs ynv))
  eos * eos

/-- the (cell, variable) visiting order of `NormalizedError` for each dense layout -/
def normOrder (L nCells nVars : Nat) : List (Nat × Nat) :=
  if L = 0 then
    (List.range nCells).flatMap fun c => (List.range nVars).map fun v => (c, v)
  else
    let whole := nCells / L
    ((List.range whole).flatMap fun g => (List.range nVars).flatMap fun v =>
        (List.range L).map fun l => (g * L + l, v)) ++
    ((List.range nVars).flatMap fun v => (List.range (nCells % L)).map fun l => (whole * L + l, v))

/-- `NormalizedError` -/
def normalizedError (o : Ops α) (cs : Consts α) (L nVars : Nat) (atol : Array α) (rtol : α)
    (y ynew err : Mat α) : α :=
  let nCells := y.size
  let sum := (normOrder L nCells nVars).foldl (fun acc cv => acc + errTerm o atol rtol y ynew err cv.1 cv.2) 0
  cmax o (o.sqrt (sum / o.ofNat (nCells * nVars))) cs.errorMin

structure Ctl (α : Type) where
  t : α
  h : α
  rejectLast : Bool
  rejectMore : Bool
  deriving Inhabited

inductive Decision | nan | inf | accept | reject
  deriving Repr, BEq, DecidableEq, Inhabited

/-- the accept/reject decision and the step-size update of one attempt, as in the source -/
def ctlDecide (o : Ops α) (p : RosParams α) (hmaxEff : α) (c : Ctl α) (error : α) : Decision × Ctl α :=
  let fac := cmin o p.fmax (cmax o p.fmin (p.safety / o.pow error (1 / p.order)))
  let hnew := c.h * fac
  if o.isNaN error then (.nan, c)
  else if o.isInf error then (.inf, c)
  else if o.lt error 1 || o.lt c.h p.hmin then
    let hnew := cmax o p.hmin (cmin o hnew hmaxEff)
    let hnew := if c.rejectLast then cmin o hnew c.h else hnew
    (.accept, { t := c.t + c.h, h := hnew, rejectLast := false, rejectMore := false })
  else
    let hnew := if c.rejectMore then c.h * p.rejDec else hnew
    (.reject, { c with h := hnew, rejectMore := c.rejectLast, rejectLast := true })

/-- stages, new solution and error estimate of one attempt (after the factorisation) -/
def stagesGo (s : SolverCfg α) (p : RosParams α) (kc Y J Lo Up : Mat α) (h : α) :
    Nat → Nat → Array (Mat α) → Mat α → Stats → Array (Mat α) × Mat α × Stats
  | 0, _, K, ynew, st => (K, ynew, st)
  | fuel + 1, stage, K, ynew, st =>
    let sc := stage * (stage - 1) / 2
    let z : Mat α := #[]
    let (K, ynew, st) :=
      if stage = 0 then (K, ynew, st)   -- K[0] was set by the caller (Copy of the initial forcing)
      else if p.newF.getD stage false then
        let ynew := (List.range stage).foldl (fun yn j => axpyM (rd p.a (sc + j)) (K.getD j z) yn) Y
        let kf := s.forcing kc ynew (fillM (K.getD stage z) 0)
        (K.setIfInBounds stage kf, ynew, { st with functionCalls := st.functionCalls + 1 })
      else (K, ynew, st)
    let K := if stage + 1 < p.stages && !(p.newF.getD (stage + 1) false)
             then K.setIfInBounds (stage + 1) (K.getD stage z) else K
    let ks := (List.range stage).foldl (fun ks j => axpyM (rd p.c (sc + j) / h) (K.getD j z) ks) (K.getD stage z)
    let ks := s.linSolve J Lo Up ks
    stagesGo s p kc Y J Lo Up h fuel (stage + 1) (K.setIfInBounds stage ks) ynew
      { st with solves := st.solves + 1 }

structure RState (α : Type) where
  Y : Mat α
  ctl : Ctl α
  stats : Stats
  status : Status
  inStep : Bool
  lastAlpha : α
  sc : Scratch α
  trace : List (Attempt α)    -- newest first
  deriving Inhabited

/-- one iteration of the flattened loop -/
def rosStep (o : Ops α) (cs : Consts α) (s : SolverCfg α) (p : RosParams α) (kc : Mat α)
    (atol : Array α) (rtol : α) (timeStep hmaxEff : α) (r : RState α) : RState α :=
  -- step prologue (outer `while` condition and body up to the inner loop)
  let r : RState α :=
    if r.inStep then r
    else if !(o.le (r.ctl.t - timeStep + p.roundOff) 0) then { r with status := .converged }
    else if r.stats.numberOfSteps > p.maxSteps then { r with status := .convergenceExceededMaxSteps }
    else if o.eq (r.ctl.t + cs.tenth * r.ctl.h) r.ctl.t || o.le r.ctl.h p.roundOff then
      { r with status := .stepSizeTooSmall }
    else
      let h := cmin o r.ctl.h (o.abs (timeStep - r.ctl.t))
      let f0 := s.forcing kc r.Y (fillM r.sc.f0 0)
      let jac := s.jacobian kc r.Y (fillM r.sc.jac 0)
      { r with ctl := { r.ctl with h := h }, inStep := true, lastAlpha := 0,
               sc := { r.sc with f0 := f0, jac := jac },
               stats := { r.stats with functionCalls := r.stats.functionCalls + 1,
                                       jacobianUpdates := r.stats.jacobianUpdates + 1 } }
  if r.status != .running then r else
  -- one attempt
  let h := r.ctl.h
  let alpha0 : α := 1 / (h * p.gamma0)
  let (alpha, lastAlpha) :=
    if s.la.kind.inPlace then (alpha0, r.lastAlpha)
    else (alpha0 - r.lastAlpha, alpha0)   -- `last_alpha` keeps the total shift applied so far
  let jacShift := s.alphaMinusJacobian r.sc.jac alpha
  let (jac, lo, up) := s.factor jacShift r.sc.lower r.sc.upper
  let st := { r.stats with decompositions := r.stats.decompositions + 1 }
  let K0 := r.sc.k.setIfInBounds 0 r.sc.f0
  let (K, _, st) := stagesGo s p kc r.Y jac lo up h p.stages 0 K0 r.sc.ynew st
  let z : Mat α := #[]
  let ynew := (List.range p.stages).foldl (fun yn i => axpyM (rd p.m i) (K.getD i z) yn) r.Y
  let yerr := (List.range p.stages).foldl (fun ye i => axpyM (rd p.e i) (K.getD i z) ye) (fillM r.sc.yerr 0)
  let error := normalizedError o cs s.L s.nSpecies atol rtol r.Y ynew yerr
  let st := { st with numberOfSteps := st.numberOfSteps + 1 }
  let (d, ctl) := ctlDecide o p hmaxEff r.ctl error
  let att : Attempt α := { h, alpha, matrix := jacShift, error, accepted := d == .accept }
  let sc := { r.sc with jac := jac, lower := lo, upper := up, k := K, yerr := yerr }
  match d with
  | .nan => { r with Y := ynew, status := .nanDetected, stats := st, lastAlpha, sc := { sc with ynew := r.Y },
                     trace := att :: r.trace }
  | .inf => { r with Y := ynew, status := .infDetected, stats := st, lastAlpha, sc := { sc with ynew := r.Y },
                     trace := att :: r.trace }
  | .accept =>
    { r with Y := ynew, ctl, inStep := false, lastAlpha, sc := { sc with ynew := r.Y },
             stats := { st with accepted := st.accepted + 1 }, trace := att :: r.trace }
  | .reject =>
    let st := if st.accepted ≥ 1 then { st with rejected := st.rejected + 1 } else st
    let (sc, st) :=
      if s.la.kind.inPlace then
        ({ sc with jac := s.jacobian kc r.Y (fillM sc.jac 0), ynew := ynew },
         { st with jacobianUpdates := st.jacobianUpdates + 1 })
      else ({ sc with ynew := ynew }, st)
    { r with ctl, stats := st, lastAlpha, sc, trace := att :: r.trace }

def rosLoop (o : Ops α) (cs : Consts α) (s : SolverCfg α) (p : RosParams α) (kc : Mat α)
    (atol : Array α) (rtol : α) (timeStep hmaxEff : α) : Nat → RState α → RState α
  | 0, r => if r.status == .running then { r with status := .outOfFuel } else r
  | fuel + 1, r =>
    if r.status != .running then r
    else rosLoop o cs s p kc atol rtol timeStep hmaxEff fuel (rosStep o cs s p kc atol rtol timeStep hmaxEff r)

structure SolveResult (α : Type) where
  status : Status
  finalTime : α
  stats : Stats
  Y : Mat α
  sc : Scratch α
  trace : List (Attempt α)   -- oldest first
  deriving Inhabited

/-- `AbstractRosenbrockSolver::Solve(time_step, state, parameters)` -/
def rosSolve (o : Ops α) (cs : Consts α) (s : SolverCfg α) (p : RosParams α) (kc : Mat α)
    (atol : Array α) (rtol : α) (timeStep : α) (Y : Mat α) (sc : Scratch α) (fuel : Nat) : SolveResult α :=
  let hmax := if o.eq p.hmax 0 then timeStep else cmin o timeStep p.hmax
  let hstart := if o.eq p.hstart 0 then cmax o p.hmin cs.deltaMin else cmin o hmax p.hstart
  let h := cmin o (cmax o (o.abs p.hmin) (o.abs hstart)) (o.abs hmax)
  let h := if o.le (o.abs h) (cs.ten * p.roundOff) then cs.deltaMin else h
  let r0 : RState α := { Y, ctl := { t := 0, h, rejectLast := false, rejectMore := false }, stats := {},
                         status := .running, inStep := false, lastAlpha := 0, sc, trace := [] }
  let r := rosLoop o cs s p kc atol rtol timeStep hmax fuel r0
  { status := r.status, finalTime := r.ctl.t, stats := r.stats, Y := r.Y, sc := r.sc, trace := r.trace.reverse }

/-- `state.variables_.Max(0.0)` of `Solver::Solve(time_step, state)` (logical elements) -/
def clampNonNeg (o : Ops α) (Y : Mat α) : Mat α := Y.map fun r => r.map fun v => cmax o v 0

end
end Micm
