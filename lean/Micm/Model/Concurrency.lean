/-
C16 model: one shared solver value `S` that the modelled entry points only READ
(`GetState`, `CalculateRateConstants`, two-argument `Solve`), and per-thread private state.
A step of thread `i` applies the pure L1 function to `(shared, local i)`.
-/
namespace Micm

structure TState (σ ρ ω : Type) where
  loc : σ               -- the thread's own State objects
  pending : List ω      -- operations still to perform
  outs : List ρ         -- results so far (newest first)

variable {S σ ρ ω : Type}

/-- thread performs its next operation (no-op when it has finished) -/
def tstep (step : S → σ → ω → σ × ρ) (s : S) (t : TState σ ρ ω) : TState σ ρ ω :=
  match t.pending with
  | [] => t
  | op :: ops => let r := step s t.loc op; ⟨r.1, ops, r.2 :: t.outs⟩

def iter {β : Type} (f : β → β) : Nat → β → β
  | 0, b => b
  | n + 1, b => iter f n (f b)

/-- run a schedule (a list of thread ids); the shared value is never written -/
def runSched (step : S → σ → ω → σ × ρ) (s : S) : List Nat → (Nat → TState σ ρ ω) → (Nat → TState σ ρ ω)
  | [], ts => ts
  | i :: is, ts => runSched step s is (fun j => if j = i then tstep step s (ts j) else ts j)

end Micm
