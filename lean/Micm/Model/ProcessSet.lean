/-
L1 model of `ProcessSet`: constructor (both loops), `NonZeroJacobianElements`,
`SetJacobianFlatIds`, per-cell `AddForcingTerms` and `SubtractJacobianTerms` replaying the flat
parallel index streams with cursors (cursor advance = `List.drop`).
-/
import Micm.Model.Sparse
namespace Micm

/-- a reactant: species name and whether the species is parameterized (e.g. third body) -/
structure SpecRef where
  name : String
  param : Bool := false
  deriving Repr, BEq, Inhabited

structure Process (α : Type) where
  reactants : List SpecRef
  products : List (SpecRef × α)
  deriving Inhabited

inductive PSErr | reactantDoesNotExist (name : String) | productDoesNotExist (name : String)
  deriving Repr, BEq, Inhabited

/-- `std::map<std::string,size_t>` as an association list -/
abbrev NameMap := List (String × Nat)
def nmLookup (m : NameMap) (s : String) : Option Nat := (List.find? (fun e => e.1 == s) m).map (·.2)

structure ProcessInfo where
  pid : Nat
  ind : Nat
  nDep : Nat
  nProd : Nat
  deriving Repr, BEq, Inhabited

structure PSTables (α : Type) where
  nReact : List Nat := []
  reactIds : List Nat := []
  nProd : List Nat := []
  prodIds : List Nat := []
  yields : List α := []
  jInfo : List ProcessInfo := []
  jReactIds : List Nat := []
  jProdIds : List Nat := []
  jYields : List α := []
  deriving Inhabited

section Build
variable {α : Type}

/-- ids of the non-parameterized reactants of a process, or the first unknown name -/
def reactIdsOf (m : NameMap) : List SpecRef → Except PSErr (List Nat)
  | [] => .ok []
  | r :: rs =>
    if r.param then reactIdsOf m rs
    else match nmLookup m r.name with
      | none => .error (.reactantDoesNotExist r.name)
      | some i => do let l ← reactIdsOf m rs; pure (i :: l)

def prodIdsOf (m : NameMap) : List (SpecRef × α) → Except PSErr (List (Nat × α))
  | [] => .ok []
  | p :: ps =>
    if p.1.param then prodIdsOf m ps
    else match nmLookup m p.1.name with
      | none => .error (.productDoesNotExist p.1.name)
      | some i => do let l ← prodIdsOf m ps; pure ((i, p.2) :: l)

/-- first constructor loop (forcing tables) -/
def buildForcing (m : NameMap) : List (Process α) → Except PSErr (PSTables α)
  | [] => .ok {}
  | p :: ps => do
    let rs ← reactIdsOf m p.reactants
    let pr ← prodIdsOf m p.products
    let t ← buildForcing m ps
    pure { t with nReact := rs.length :: t.nReact, reactIds := rs ++ t.reactIds,
                  nProd := pr.length :: t.nProd, prodIds := pr.map (·.1) ++ t.prodIds,
                  yields := pr.map (·.2) ++ t.yields }

/-- dependents of one occurrence: all non-parameterized reactant ids except the *first* one
    equal to `ind` (the source's `found` flag) -/
def dependents (ind : Nat) : List Nat → Bool → List Nat
  | [], _ => []
  | i :: is, found => if i = ind && !found then dependents ind is true else i :: dependents ind is found

structure JEntry (α : Type) where
  info : ProcessInfo
  deps : List Nat
  prods : List (Nat × α)

/-- second constructor loop, as a nested program: for each independent variable (by index), each
    process, each reactant occurrence whose *name* equals the variable's name -/
def buildJacobianEntries (names : List (String × Nat)) (procs : List (Process α × List Nat × List (Nat × α))) :
    List (JEntry α) :=
  names.flatMap fun nv =>
    (procs.zipIdx).flatMap fun (p, ip) =>
      (p.1.reactants.filter (fun r => r.name == nv.1)).map fun _ =>
        let deps := dependents nv.2 p.2.1 false
        { info := ⟨ip, nv.2, deps.length, p.2.2.length⟩, deps := deps, prods := p.2.2 }

def insertByIdx (a : String × Nat) : List (String × Nat) → List (String × Nat)
  | [] => [a]
  | b :: l => if a.2 < b.2 then a :: b :: l else b :: insertByIdx a l

/-- `std::sort` by index (indices of a name map are distinct, so stability is irrelevant) -/
def sortByIdx (m : NameMap) : List (String × Nat) := m.foldr insertByIdx []

def ProcessSet.build (procs : List (Process α)) (m : NameMap) : Except PSErr (PSTables α) := do
  let t ← buildForcing m procs
  let resolved ← procs.mapM fun p => do
    let rs ← reactIdsOf m p.reactants
    let pr ← prodIdsOf m p.products
    pure (p, rs, pr)
  let es := buildJacobianEntries (sortByIdx m) resolved
  pure { t with jInfo := es.map (·.info), jReactIds := es.flatMap (·.deps),
                jProdIds := es.flatMap fun e => e.prods.map (·.1),
                jYields := es.flatMap fun e => e.prods.map (·.2) }

/-- `NonZeroJacobianElements` -/
def nonZeroGo : List Nat → List Nat → List Nat → List Nat → List Pair → List Pair
  | nr :: nrs, np :: nps, rids, pids, s =>
    let rs := rids.take nr
    let ps := pids.take np
    let s := rs.foldl (fun s ind =>
      let s := rs.foldl (fun s dep => setInsert (dep, ind) s) s
      ps.foldl (fun s dep => setInsert (dep, ind) s) s) s
    nonZeroGo nrs nps (rids.drop nr) (pids.drop np) s
  | _, _, _, _, s => s

def PSTables.nonZeroJacobianElements (t : PSTables α) : List Pair :=
  nonZeroGo t.nReact t.nProd t.reactIds t.prodIds []

/-- `SetJacobianFlatIds` (ranks; the C++ value is `rank` for standard and `rank * L` for vector
    orderings).  `Except` because `VectorIndex` may throw. -/
def flatIdsGo (p : Pattern) : List ProcessInfo → List Nat → List Nat → Except MatErr (List Nat)
  | [], _, _ => .ok []
  | info :: infos, jr, jp => do
    let a ← (jr.take info.nDep).mapM fun r => p.rank r info.ind
    let d ← p.rank info.ind info.ind
    let b ← (jp.take info.nProd).mapM fun r => p.rank r info.ind
    let rest ← flatIdsGo p infos (jr.drop info.nDep) (jp.drop info.nProd)
    pure (a ++ d :: b ++ rest)

def PSTables.jacobianFlatIds (t : PSTables α) (p : Pattern) : Except MatErr (List Nat) :=
  flatIdsGo p t.jInfo t.jReactIds t.jProdIds

end Build

section Kernels
variable {α : Type} [OfNat α 0] [Add α] [Sub α] [Mul α]

/-- per-cell `AddForcingTerms`: `ks` are the cell's rate constants in reaction order -/
def forcingGo (y : Array α) :
    List Nat → List Nat → List Nat → List Nat → List α → List α → Array α → Array α
  | nr :: nrs, np :: nps, rids, pids, ylds, k :: ks, f =>
    let rs := rids.take nr
    let rate := rs.foldl (fun acc i => acc * rd y i) k
    let f := rs.foldl (fun f i => wr f i (rd f i - rate)) f
    let f := ((pids.take np).zip (ylds.take np)).foldl (fun f p => wr f p.1 (rd f p.1 + p.2 * rate)) f
    forcingGo y nrs nps (rids.drop nr) (pids.drop np) (ylds.drop np) ks f
  | _, _, _, _, _, _, f => f

def PSTables.addForcingCell (t : PSTables α) (k y f : Array α) : Array α :=
  forcingGo y t.nReact t.nProd t.reactIds t.prodIds t.yields k.toList f

/-- per-cell `SubtractJacobianTerms`; `flat` are element ranks in the cell's sparse block -/
def jacGo (k y : Array α) : List ProcessInfo → List Nat → List α → List Nat → Array α → Array α
  | info :: infos, jr, jy, flat, J =>
    let d := (jr.take info.nDep).foldl (fun acc i => acc * rd y i) (rd k info.pid)
    let J := (flat.take (info.nDep + 1)).foldl (fun J id => wr J id (rd J id + d)) J
    let flat := flat.drop (info.nDep + 1)
    let J := ((flat.take info.nProd).zip (jy.take info.nProd)).foldl (fun J p => wr J p.1 (rd J p.1 - p.2 * d)) J
    jacGo k y infos (jr.drop info.nDep) (jy.drop info.nProd) (flat.drop info.nProd) J
  | [], _, _, _, J => J

def PSTables.subtractJacobianCell (t : PSTables α) (flat : List Nat) (k y J : Array α) : Array α :=
  jacGo k y t.jInfo t.jReactIds t.jYields flat J

end Kernels
end Micm
