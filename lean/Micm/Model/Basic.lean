/-
L1 model, basic layer: total array access, C++-style min/max, the `Ops` record for the
non-algebraic primitives (comparisons, sqrt, pow, abs, NaN/Inf tests), sorted pair sets
(`std::set<std::pair<size_t,size_t>>`).  Core Lean only (no Mathlib) so the driver links.
-/
namespace Micm

universe u

section Arr
variable {α : Type} [OfNat α 0]

/-- total read: out-of-range reads give `0` (every theorem that needs an access to be in range
    proves the range separately; the driver's checked mode reports such an access as `ub`). -/
@[inline] def rd (a : Array α) (i : Nat) : α := a.getD i 0
/-- total write: out-of-range writes are dropped (see `rd`). -/
@[inline] def wr (a : Array α) (i : Nat) (v : α) : Array α := a.setIfInBounds i v

omit [OfNat α 0] in
@[simp] theorem wr_size (a : Array α) (i : Nat) (v : α) : (wr a i v).size = a.size := by
  simp [wr]

theorem rd_wr (a : Array α) (i j : Nat) (v : α) :
    rd (wr a i v) j = if i = j ∧ i < a.size then v else rd a j := by
  unfold rd wr
  by_cases h : i = j
  · subst h
    by_cases hi : i < a.size
    · simp [hi, Array.getD_eq_getD_getElem?]
    · simp [hi, Array.getD_eq_getD_getElem?]
  · simp [h, Array.getD_eq_getD_getElem?]

theorem rd_wr_same (a : Array α) (i : Nat) (v : α) (h : i < a.size) : rd (wr a i v) i = v := by
  simp [rd_wr, h]

theorem rd_wr_ne (a : Array α) (i j : Nat) (v : α) (h : i ≠ j) : rd (wr a i v) j = rd a j := by
  simp [rd_wr, h]
end Arr

/-- Non-algebraic primitives of the number type.  `Float` instance: IEEE comparisons and libm;
    proofs instantiate it from a linear order (see `Spec`). -/
structure Ops (α : Type) where
  lt : α → α → Bool
  le : α → α → Bool
  eq : α → α → Bool
  abs : α → α
  sqrt : α → α
  pow : α → α → α
  isNaN : α → Bool
  isInf : α → Bool       -- C++ `std::isinf(x) == 1`-style test (glibc returns 1 for ±inf in C++)
  isFinite : α → Bool    -- `std::isfinite`
  ofNat : Nat → α        -- `static_cast<double>(size_t)`

/-- `std::max(a,b)` : `(a < b) ? b : a` -/
@[inline] def cmax {α} (o : Ops α) (a b : α) : α := if o.lt a b then b else a
/-- `std::min(a,b)` : `(b < a) ? b : a` -/
@[inline] def cmin {α} (o : Ops α) (a b : α) : α := if o.lt b a then b else a

def floatOps : Ops Float where
  lt a b := decide (a < b)
  le a b := decide (a ≤ b)
  eq a b := a == b
  abs := Float.abs
  sqrt := Float.sqrt
  pow := Float.pow
  isNaN := Float.isNaN
  isInf := Float.isInf
  isFinite := Float.isFinite
  ofNat := Nat.toFloat

/-! ### `std::set<std::pair<size_t,size_t>>` as a strictly sorted list -/

abbrev Pair := Nat × Nat

def pairLt (a b : Pair) : Bool := a.1 < b.1 || (a.1 == b.1 && a.2 < b.2)

def setInsert (a : Pair) : List Pair → List Pair
  | [] => [a]
  | b :: l => if pairLt a b then a :: b :: l else if a == b then b :: l else b :: setInsert a l

def setOfList (l : List Pair) : List Pair := l.foldl (fun s a => setInsert a s) []

def setMem (a : Pair) (s : List Pair) : Bool := s.contains a

end Micm
