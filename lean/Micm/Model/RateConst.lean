/-
L1 model of `Process::CalculateRateConstants` (row-major and vector layouts: the offset walk over
the custom-parameter columns) and of the seven rate-constant formulas.  The formulas the model executes
(`RateKind.calc`) are the bodies of the C++ `Calculate` functions as GENERATED from the headers on every run
(`Micm/Gen/RateFormulas.lean`, tools/gen_rates.py); `RateKind.documented` is the hand-written transcription of the
documented formulas, and `Properties/C15b.lean` proves the two equal.
-/
import Micm.Model.RateOps
import Micm.Gen.RateFormulas
namespace Micm

inductive RateKind (α : Type)
  | arrhenius (A B C D E : α)
  | troe (k0A k0B k0C kinfA kinfB kinfC Fc N : α)
  | ternary (k0A k0B k0C kinfA kinfB kinfC Fc N : α)
  | branched (alkoxy : Bool) (X Y a0 : α) (n : Int)
  | tunneling (A B C : α)
  | surface (label : String) (diffusion mfsFactor probability : α)
  | userDefined (label : String) (scale : α)
  deriving Inhabited

def RateKind.nParams {α} : RateKind α → Nat
  | .surface .. => 2
  | .userDefined .. => 1
  | _ => 0

def RateKind.labels {α} : RateKind α → List String
  | .surface l .. => [l ++ ".effective radius [m]", l ++ ".particle number concentration [# m-3]"]
  | .userDefined l _ => [l]
  | _ => []

section
variable {α : Type} [OfNat α 0] [OfNat α 1] [Add α] [Sub α] [Mul α] [Div α] [Neg α]

def branchedA (t : TOps α) (k0 temperature air : α) : α :=
  let a := k0 * air
  let b := t.lit 0.43 * t.pow (temperature / t.lit 298.0) (t.ofInt (-8))
  a / (1 + a / b) * t.pow (t.lit 0.41) (1 / (1 + t.pow (t.log10 (a / b)) (t.ofInt 2)))

def troeCore (t : TOps α) (k0A k0B k0C kinfA kinfB kinfC : α) (temperature : α) : α × α :=
  (k0A * t.exp (k0C / temperature) * t.pow (temperature / t.lit 300.0) k0B,
   kinfA * t.exp (kinfC / temperature) * t.pow (temperature / t.lit 300.0) kinfB)

/-- the DOCUMENTED formulas (written by hand from the documentation of each rate-constant type); `ps` are the
    reaction's own custom parameters -/
def RateKind.documented (t : TOps α) (pi avogadro : α) (c : Conditions α) (ps : List α) : RateKind α → α
  | .arrhenius A B C D E =>
    A * t.exp (C / c.temperature) * t.pow (c.temperature / D) B * (1 + E * c.pressure)
  | .troe k0A k0B k0C kinfA kinfB kinfC Fc N =>
    let (k0, kinf) := troeCore t k0A k0B k0C kinfA kinfB kinfC c.temperature
    k0 * c.airDensity / (1 + k0 * c.airDensity / kinf) *
      t.pow Fc (N / (N + t.pow (t.log10 (k0 * c.airDensity / kinf)) (t.ofInt 2)))
  | .ternary k0A k0B k0C kinfA kinfB kinfC Fc N =>
    let (k0, kinf) := troeCore t k0A k0B k0C kinfA kinfB kinfC c.temperature
    k0 / (1 + k0 * c.airDensity / kinf) *
      t.pow Fc (N / (N + t.pow (t.log10 (k0 * c.airDensity / kinf)) (t.ofInt 2)))
  | .branched alkoxy X Y a0 n =>
    let k0 := t.lit 2.0e-22 * avogadro * t.lit 1.0e-6 * t.exp (t.ofInt n)
    let z := branchedA t k0 (t.lit 293.0) (t.lit 2.45e19 / avogadro * t.lit 1.0e6) * (1 - a0) / a0
    let pre := X * t.exp (-Y / c.temperature)
    let atmn := branchedA t k0 c.temperature c.airDensity
    if alkoxy then pre * (z / (z + atmn)) else pre * (atmn / (atmn + z))
  | .tunneling A B C =>
    A * t.exp (-B / c.temperature + C / t.pow c.temperature (t.ofInt 3))
  | .surface _ diff mfs prob =>
    let speed := t.sqrt (mfs * c.temperature)
    let radius := ps.getD 0 0
    let number := ps.getD 1 0
    t.lit 4.0 * number * pi * radius * radius / (radius / diff + t.lit 4.0 / (speed * prob))
  | .userDefined _ scale => ps.getD 0 0 * scale

/-- `RateConstant::Calculate(conditions, custom_parameters_iter)` as the source has it: the generated bodies, applied
    to the fields of `Conditions` each class forwards; the Branched constants `k0_`, `z_` come from the generated
    constructor initialisers -/
def RateKind.calc (t : TOps α) (pi avogadro : α) (c : Conditions α) (ps : List α) : RateKind α → α
  | .arrhenius A B C D E => Gen.arrheniusCalc t A B C D E (Gen.arrheniusArgs c).1 (Gen.arrheniusArgs c).2
  | .troe k0A k0B k0C kinfA kinfB kinfC Fc N =>
    Gen.troeCalc t k0A k0B k0C kinfA kinfB kinfC Fc N (Gen.troeArgs c).1 (Gen.troeArgs c).2
  | .ternary k0A k0B k0C kinfA kinfB kinfC Fc N =>
    Gen.ternaryCalc t k0A k0B k0C kinfA kinfB kinfC Fc N (Gen.ternaryArgs c).1 (Gen.ternaryArgs c).2
  | .branched alkoxy X Y a0 n =>
    let k0 := Gen.branchedK0 t avogadro n
    let z := Gen.branchedZ t avogadro k0 a0
    Gen.branchedCalc t alkoxy X Y k0 z (Gen.branchedArgs c).1 (Gen.branchedArgs c).2
  | .tunneling A B C => Gen.tunnelingCalc t A B C (Gen.tunnelingArgs c)
  | .surface _ diff mfs prob => Gen.surfaceCalc t pi diff mfs prob c.temperature (ps.getD 0 0) (ps.getD 1 0)
  | .userDefined _ scale => Gen.userDefinedCalc scale (ps.getD 0 0)

structure RateProc (α : Type) where
  kind : RateKind α
  nParamReactants : Nat       -- number of parameterized (third-body) reactants: each multiplies by air density

/-- fixed-reactant product: `fixed_reactants *= reactant.parameterize_(conditions)` (third body = air density) -/
def fixedReactants (c : Conditions α) (n : Nat) : α := (List.range n).foldl (fun f _ => f * c.airDensity) 1

/-- per-cell rate constants: walk the processes, advancing the parameter cursor by each
    process's `SizeCustomParameters()` -/
def rateConstGo (t : TOps α) (pi avogadro : α) (c : Conditions α) : List (RateProc α) → List α → List α
  | [], _ => []
  | p :: ps, params =>
    (p.kind.calc t pi avogadro c (params.take p.kind.nParams) * fixedReactants c p.nParamReactants)
      :: rateConstGo t pi avogadro c ps (params.drop p.kind.nParams)

/-- `CalculateRateConstants` on logical cells -/
def calculateRateConstants (t : TOps α) (pi avogadro : α) (procs : List (RateProc α))
    (conds : Array (Conditions α)) (params : Mat α) : Mat α :=
  conds.mapIdx fun c cond => (rateConstGo t pi avogadro cond procs (params.getD c #[]).toList).toArray

end
end Micm
