/-
C18 model (decision logic only): the three run-time guards that keep JIT-generated functions from
being used on a matrix whose cell count differs from the vector length `L` they were generated for
(jit_lu_decomposition_doolittle.inl, jit_linear_solver.inl, jit_rosenbrock.hpp).  The generated
machine code itself is outside any Lean model; it is compared with the CPU kernels by execution.
-/
import Micm.Model.Builder
namespace Micm

def catJit := "MICM JIT"

/-- `JitLuDecompositionDoolittle` constructor: `if (matrix.NumberOfBlocks() > L) throw InvalidMatrix` -/
def jitLuGuard (L cells : Nat) : Except Err Unit :=
  if cells > L then .error (.sys catJit 1) else .ok ()

/-- `JitLinearSolver` constructor: its base constructs the LU object first, then
    `if (matrix.NumberOfBlocks() != L || matrix.GroupVectorSize() != L) throw InvalidMatrix`
    (`GroupVectorSize() = L` holds by the matrix type) -/
def jitLinearSolverGuard (L cells : Nat) : Except Err Unit := do
  jitLuGuard L cells
  if cells ≠ L then .error (.sys catJit 1) else .ok ()

/-- `JitRosenbrockSolver::AlphaMinusJacobian`, checked on every call -/
def jitAlphaGuard (L blocks : Nat) : Except Err Unit :=
  if L ≠ blocks then .error (.sys catJit 1) else .ok ()

/-- building a JIT solver for `cells` grid cells -/
def jitBuild (L cells : Nat) : Except Err Unit := jitLinearSolverGuard L cells

end Micm
