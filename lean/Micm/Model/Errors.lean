/-
L1 model (decision logic) of the documented error conditions outside the builder and the State:
`Process` constructor (surface reaction), `Species::GetProperty`, dense-matrix construction from nested
vectors and row assignment, the two-argument `SparseMatrix::VectorIndex`, `SparseMatrixBuilder::WithElement`.
-/
import Micm.Model.Builder
import Micm.Model.Dense
namespace Micm

/-- `Process(reactants, products, SurfaceRateConstant, …)`: more than one reactant is rejected -/
def surfaceProcessCheck (nReactants : Nat) : Except Err Unit :=
  if nReactants > 1 then .error (.sys catProcess 1) else .ok ()

inductive PropType | string | double | bool | int | unsupported
  deriving Repr, BEq, DecidableEq

/-- `Species::GetProperty<T>(key)`: `present` tells whether the map of type `T` has the key -/
def getPropertyCheck (ty : PropType) (present : Bool) : Except Err Unit :=
  match ty with
  | .unsupported => .error (.sys catSpecies 2)
  | _ => if present then .ok () else .error (.sys catSpecies 1)

/-- construction from nested vectors: all rows must have the length of the first -/
def nestedCheck (rowLens : List Nat) : Except Err (Nat × Nat) :=
  match rowLens with
  | [] => .ok (0, 0)
  | c :: _ => if rowLens.all (· == c) then .ok (rowLens.length, c) else .error (.sys catMatrix 2)

/-- row assignment from a vector: at least `cols` elements are required -/
def rowAssignCheck (cols len : Nat) : Except Err Unit :=
  if len < cols then .error (.sys catMatrix 1) else .ok ()

/-- `VectorIndex(row, col)` without a block index -/
def twoArgIndexCheck (blocks : Nat) : Except Err Unit :=
  if blocks ≠ 1 then .error (.sys catMatrix 4) else .ok ()

end Micm
