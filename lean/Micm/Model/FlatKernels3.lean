/-
L1 model of the remaining *flat-storage* kernels, loop for loop as in the source:
Mozart, Doolittle-in-place and Mozart-in-place `Decompose`, `LinearSolverInPlace::Solve`,
`NormalizedError` (both overloads), `AlphaMinusJacobian` (both overloads).
Conventions as in FlatKernels2.lean (table entries are ranks; lane stride `L`, `L = 0` = standard ordering).
-/
import Micm.Model.FlatKernels2
import Micm.Model.Rosenbrock
namespace Micm

section
variable {α : Type} [OfNat α 0] [OfNat α 1] [Add α] [Sub α] [Mul α] [Div α]

/-! ### LuDecompositionMozart::Decompose -/

def mozartVecGroup (L nc : Nat) (ini : List MInit) (rows : List MRow) (A : Array α) (offA offL offU : Nat)
    (LU : Array α × Array α) : Array α × Array α :=
  let LU := ini.foldl (fun (LU : Array α × Array α) r =>
    let U := r.ujiAji.foldl (fun U p => lanesDo nc (fun U l => wr U (offU + p.1 * L + l) (rd A (offA + p.2 * L + l))) U) LU.2
    let Lo := lanesDo nc (fun Lo l => wr Lo (offL + r.lii * L + l) 1) LU.1
    let Lo := r.ljiAji.foldl (fun Lo p => lanesDo nc (fun Lo l => wr Lo (offL + p.1 * L + l) (rd A (offA + p.2 * L + l))) Lo) Lo
    (Lo, U)) LU
  let U := ini.foldl (fun U r => r.fillU.foldl (fun U i => lanesDo nc (fun U l => wr U (offU + i * L + l) 0) U) U) LU.2
  let Lo := ini.foldl (fun Lo r => r.fillL.foldl (fun Lo i => lanesDo nc (fun Lo l => wr Lo (offL + i * L + l) 0) Lo) Lo) LU.1
  rows.foldl (fun (LU : Array α × Array α) r =>
    -- Uii_inverse[i_cell] = 1.0 / U_vector[uii + i_cell]
    let inv : Array α := ((List.range nc).map fun l => (1 : α) / rd LU.2 (offU + r.uii * L + l)).toArray
    let Lo := r.lji.foldl (fun Lo i => lanesDo nc (fun Lo l => wr Lo (offL + i * L + l) (rd Lo (offL + i * L + l) * rd inv l)) Lo) LU.1
    r.ks.foldl (fun (LU : Array α × Array α) k =>
      let U := k.ujk.foldl (fun U p => lanesDo nc (fun U l =>
        wr U (offU + p.1 * L + l) (rd U (offU + p.1 * L + l) - rd LU.1 (offL + p.2 * L + l) * rd U (offU + k.uik * L + l))) U) LU.2
      let Lo := k.ljk.foldl (fun Lo p => lanesDo nc (fun Lo l =>
        wr Lo (offL + p.1 * L + l) (rd Lo (offL + p.1 * L + l) - rd Lo (offL + p.2 * L + l) * rd U (offU + k.uik * L + l))) Lo) LU.1
      (Lo, U)) (Lo, LU.2)) (Lo, U)

def mozartFlat (L blocks : Nat) (ini : List MInit) (rows : List MRow) (nnzA nnzL nnzU : Nat) (A : Array α)
    (LU : Array α × Array α) : Array α × Array α :=
  if L = 0 then
    (List.range blocks).foldl (fun LU b => mozartVecGroup 1 1 ini rows A (b * nnzA) (b * nnzL) (b * nnzU) LU) LU
  else
    (List.range ((blocks + L - 1) / L)).foldl (fun LU g =>
      mozartVecGroup L (min L (blocks - g * L)) ini rows A (g * (L * nnzA)) (g * (L * nnzL)) (g * (L * nnzU)) LU) LU

/-! ### in-place decompositions -/

def doolittleInPlaceVecGroup (L nc : Nat) (rows : List DIRow) (off : Nat) (M : Array α) : Array α :=
  rows.foldl (fun M r =>
    let M := r.u.foldl (fun M e => e.pairs.foldl (fun M p => lanesDo nc (fun M l =>
      wr M (off + e.t * L + l) (rd M (off + e.t * L + l) - rd M (off + p.1 * L + l) * rd M (off + p.2 * L + l))) M) M) M
    r.l.foldl (fun M e =>
      let M := e.pairs.foldl (fun M p => lanesDo nc (fun M l =>
        wr M (off + e.t * L + l) (rd M (off + e.t * L + l) - rd M (off + p.1 * L + l) * rd M (off + p.2 * L + l))) M) M
      lanesDo nc (fun M l => wr M (off + e.t * L + l) (rd M (off + e.t * L + l) / rd M (off + r.aii * L + l))) M) M) M

def doolittleInPlaceFlat (L blocks : Nat) (rows : List DIRow) (nnz : Nat) (M : Array α) : Array α :=
  if L = 0 then (List.range blocks).foldl (fun M b => doolittleInPlaceVecGroup 1 1 rows (b * nnz) M) M
  else (List.range ((blocks + L - 1) / L)).foldl (fun M g =>
    doolittleInPlaceVecGroup L (min L (blocks - g * L)) rows (g * (L * nnz)) M) M

def mozartInPlaceVecGroup (L nc : Nat) (rows : List MIRow) (off : Nat) (M : Array α) : Array α :=
  rows.foldl (fun M r =>
    let inv : Array α := ((List.range nc).map fun l => (1 : α) / rd M (off + r.aii * L + l)).toArray
    let M := r.aji.foldl (fun M i => lanesDo nc (fun M l => wr M (off + i * L + l) (rd M (off + i * L + l) * rd inv l)) M) M
    r.ks.foldl (fun M k =>
      k.pairs.foldl (fun M p => lanesDo nc (fun M l =>
        wr M (off + p.1 * L + l) (rd M (off + p.1 * L + l) - rd M (off + p.2 * L + l) * rd M (off + k.aik * L + l))) M) M) M) M

def mozartInPlaceFlat (L blocks : Nat) (rows : List MIRow) (nnz : Nat) (M : Array α) : Array α :=
  if L = 0 then (List.range blocks).foldl (fun M b => mozartInPlaceVecGroup 1 1 rows (b * nnz) M) M
  else (List.range ((blocks + L - 1) / L)).foldl (fun M g =>
    mozartInPlaceVecGroup L (min L (blocks - g * L)) rows (g * (L * nnz)) M) M

/-! ### LinearSolverInPlace::Solve -/

def solveInPlaceVecGroup (L n : Nat) (fw bw : List SubRow) (M : Array α) (offX offM : Nat) (x : Array α) : Array α :=
  let (x, _) := fw.foldl (fun (s : Array α × Nat) r =>
    let x := r.pairs.foldl (fun x p => lanesDo L (fun x l =>
      wr x (offX + s.2 * L + l) (rd x (offX + s.2 * L + l) - rd M (offM + p.1 * L + l) * rd x (offX + p.2 * L + l))) x) s.1
    (x, s.2 + 1)) (x, 0)
  let (x, _) := bw.foldl (fun (s : Array α × Nat) r =>
    let x := r.pairs.foldl (fun x p => lanesDo L (fun x l =>
      wr x (offX + s.2 * L + l) (rd x (offX + s.2 * L + l) - rd M (offM + p.1 * L + l) * rd x (offX + p.2 * L + l))) x) s.1
    (lanesDo L (fun x l => wr x (offX + s.2 * L + l) (rd x (offX + s.2 * L + l) / rd M (offM + r.diag * L + l))) x,
     if s.2 = 0 then 0 else s.2 - 1)) (x, n - 1)
  x

def solveInPlaceFlat (L nCells n : Nat) (fw bw : List SubRow) (nnz : Nat) (M x : Array α) : Array α :=
  if L = 0 then (List.range nCells).foldl (fun x c => solveInPlaceVecGroup 1 n fw bw M (c * n) (c * nnz) x) x
  else (List.range ((nCells + L - 1) / L)).foldl (fun x g => solveInPlaceVecGroup L n fw bw M (g * (L * n)) (g * (L * nnz)) x) x

/-! ### NormalizedError on flat storage -/

/-- row-major overload: `for i < N: … atol[i % n_vars]` -/
def normFlatRow (o : Ops α) (cs : Consts α) (nCells nVars : Nat) (atol : Array α) (rtol : α) (Y Yn E : Array α) : α :=
  let N := nCells * nVars
  let sum := (List.range N).foldl (fun acc i =>
    let ymax := cmax o (o.abs (rd Y i)) (o.abs (rd Yn i))
    let eos := rd E i / (rd atol (i % nVars) + rtol * ymax)
    acc + eos * eos) 0
  cmax o (o.sqrt (sum / o.ofNat N)) cs.errorMin

/-- vector overload: whole groups linearly with `atol[(i / L) % n_vars]`, then the remaining rows of the partial group -/
def normFlatVec (o : Ops α) (cs : Consts α) (L nCells nVars : Nat) (atol : Array α) (rtol : α) (Y Yn E : Array α) : α :=
  let whole := (nCells / L) * (L * nVars)
  let sum := (List.range whole).foldl (fun acc i =>
    let eos := rd E i / (rd atol ((i / L) % nVars) + rtol * cmax o (o.abs (rd Y i)) (o.abs (rd Yn i)))
    acc + eos * eos) 0
  let rem := nCells % L
  let sum := (List.range nVars).foldl (fun acc y => (List.range rem).foldl (fun acc x =>
    let idx := whole + y * L + x
    let eos := rd E idx / (rd atol y + rtol * cmax o (o.abs (rd Y idx)) (o.abs (rd Yn idx)))
    acc + eos * eos) acc) sum
  cmax o (o.sqrt (sum / o.ofNat (nCells * nVars))) cs.errorMin

def normFlat (o : Ops α) (cs : Consts α) (L nCells nVars : Nat) (atol : Array α) (rtol : α) (Y Yn E : Array α) : α :=
  if L = 0 then normFlatRow o cs nCells nVars atol rtol Y Yn E else normFlatVec o cs L nCells nVars atol rtol Y Yn E

/-! ### AlphaMinusJacobian on flat storage -/

/-- `diag` = ranks of the diagonal elements (C++: `jacobian_diagonal_elements_` = rank, or rank*L for vector orderings) -/
def alphaMinusJacobianFlat (L blocks nnz : Nat) (diag : List Nat) (J : Array α) (alpha : α) : Array α :=
  if L = 0 then
    (List.range blocks).foldl (fun J b => diag.foldl (fun J i => wr J (b * nnz + i) (rd J (b * nnz + i) + alpha)) J) J
  else
    -- all L lanes of every group, padding included
    (List.range ((blocks + L - 1) / L)).foldl (fun J g => diag.foldl (fun J i => lanesDo L (fun J l =>
      wr J (g * (L * nnz) + i * L + l) (rd J (g * (L * nnz) + i * L + l) + alpha)) J) J) J

end
end Micm
