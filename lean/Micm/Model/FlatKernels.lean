/-
L1 model of the *flat-storage* forcing kernels, loop for loop as in process_set.hpp:
`AddForcingTerms` for `Matrix` (row-major, per cell) and for `VectorMatrix<L>` (per group, a rate
buffer of L lanes, every lane of every group processed — padding lanes included).
The per-cell kernel `PSTables.addForcingCell` is what the theorems about the rate law speak of;
`Properties/C13.lean` proves that these flat kernels compute exactly that, cell by cell, for every
L and every cell count (the lane theorem).
-/
import Micm.Model.ProcessSet
import Micm.Model.Dense
namespace Micm

section
variable {α : Type} [OfNat α 0] [Add α] [Sub α] [Mul α]

/-- row-major `AddForcingTerms`: cell `c` occupies `[c*nrx, (c+1)*nrx)` of K and `[c*ns, (c+1)*ns)` of Y, F -/
def forcingRowGo (Y K : Array α) (offK offY : Nat) :
    List Nat → List Nat → List Nat → List Nat → List α → Nat → Array α → Array α
  | nr :: nrs, np :: nps, rids, pids, ylds, iRxn, F =>
    let rs := rids.take nr
    let rate := rs.foldl (fun acc i => acc * rd Y (offY + i)) (rd K (offK + iRxn))
    let F := rs.foldl (fun F i => wr F (offY + i) (rd F (offY + i) - rate)) F
    let F := ((pids.take np).zip (ylds.take np)).foldl (fun F p => wr F (offY + p.1) (rd F (offY + p.1) + p.2 * rate)) F
    forcingRowGo Y K offK offY nrs nps (rids.drop nr) (pids.drop np) (ylds.drop np) (iRxn + 1) F
  | _, _, _, _, _, _, F => F

def PSTables.addForcingFlatRow (t : PSTables α) (nCells nRxn nSpecies : Nat) (K Y F : Array α) : Array α :=
  (List.range nCells).foldl (fun F c =>
    forcingRowGo Y K (c * nRxn) (c * nSpecies) t.nReact t.nProd t.reactIds t.prodIds t.yields 0 F) F

/-- one reaction of the vector kernel for one group: `rate` is the L-lane buffer -/
def forcingVecRxn (L : Nat) (Y : Array α) (offY : Nat) (rs : List Nat) (ps : List (Nat × α))
    (rate0 : Array α) (F : Array α) : Array α :=
  let lanes := List.range L
  -- rate[lane] *= Y[offset_state + id*L + lane], reactant by reactant, lane by lane
  let rate := rs.foldl (fun rate i => lanes.foldl (fun rate l => wr rate l (rd rate l * rd Y (offY + i * L + l))) rate) rate0
  let F := rs.foldl (fun F i => lanes.foldl (fun F l => wr F (offY + i * L + l) (rd F (offY + i * L + l) - rd rate l)) F) F
  ps.foldl (fun F p => lanes.foldl (fun F l => wr F (offY + p.1 * L + l) (rd F (offY + p.1 * L + l) + p.2 * rd rate l)) F) F

def forcingVecGo (L : Nat) (Y K : Array α) (offK offY : Nat) :
    List Nat → List Nat → List Nat → List Nat → List α → Nat → Array α → Array α
  | nr :: nrs, np :: nps, rids, pids, ylds, iRxn, F =>
    -- rate.assign(v_rate_subrange_begin, v_rate_subrange_begin + L)
    let rate0 : Array α := ((List.range L).map fun l => rd K (offK + iRxn * L + l)).toArray
    let F := forcingVecRxn L Y offY (rids.take nr) ((pids.take np).zip (ylds.take np)) rate0 F
    forcingVecGo L Y K offK offY nrs nps (rids.drop nr) (pids.drop np) (ylds.drop np) (iRxn + 1) F
  | _, _, _, _, _, _, F => F

/-- `AddForcingTerms` for `VectorMatrix<L>` (`L ≥ 1`): groups `0 … ceil(nCells/L)-1`, all L lanes each -/
def PSTables.addForcingFlatVec (t : PSTables α) (L nCells nRxn nSpecies : Nat) (K Y F : Array α) : Array α :=
  (List.range ((nCells + L - 1) / L)).foldl (fun F g =>
    forcingVecGo L Y K (g * (L * nRxn)) (g * (L * nSpecies)) t.nReact t.nProd t.reactIds t.prodIds t.yields 0 F) F

/-- both layouts behind one entry point (`L = 0`: row-major) -/
def PSTables.addForcingFlat (t : PSTables α) (L nCells nRxn nSpecies : Nat) (K Y F : Array α) : Array α :=
  if L = 0 then t.addForcingFlatRow nCells nRxn nSpecies K Y F else t.addForcingFlatVec L nCells nRxn nSpecies K Y F

/-- logical row `c` of a flat dense matrix -/
def flatRow (s : DenseShape) (data : Array α) (c : Nat) : Array α :=
  ((List.range s.cols).map fun j => rd data (s.addr c j)).toArray

end
end Micm
