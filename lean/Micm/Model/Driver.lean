/-
Line-protocol driver of the L1 model, instantiated at `Float` (IEEE binary64, same libm as the
C++).  One case per input line, one output line per case; the C++ harness prints the same lines
from the real implementation.  Floats travel as 16-hex-digit bit patterns; NaN prints as `nan`.
-/
import Micm.Model.Builder
import Micm.Model.Dense
import Micm.Model.RateConst
import Micm.Model.State
import Micm.Model.FlatKernels
import Micm.Model.History
import Micm.Model.FlatKernels2
import Micm.Model.FlatKernels3
import Micm.Model.Errors
import Micm.Model.JitProg
namespace Micm.Driver
open Micm

/-! token reader -/
abbrev P := StateM (List String)

def tok : P String := do
  match (← get) with
  | [] => pure ""
  | t :: ts => set ts; pure t
def nat : P Nat := do pure ((← tok).toNat?.getD 0)
def hexDigit (c : Char) : Nat :=
  if c.isDigit then c.toNat - '0'.toNat else if 'a' ≤ c && c ≤ 'f' then c.toNat - 'a'.toNat + 10 else 0
def parseHex (s : String) : UInt64 := (s.toList.foldl (fun acc c => acc * 16 + hexDigit c) 0).toUInt64
def flt : P Float := do
  let t ← tok
  pure (if t == "nan" then 0.0 / 0.0 else Float.ofBits (parseHex t))
def many {β} (n : Nat) (p : P β) : P (List β) := (List.range n).mapM fun _ => p
def nats (n : Nat) : P (List Nat) := many n nat
def flts (n : Nat) : P (List Float) := many n flt
def boolT : P Bool := do pure ((← nat) != 0)

def hex16 (n : Nat) : String :=
  let s := String.ofList (Nat.toDigits 16 n)
  String.ofList (List.replicate (16 - s.length) '0') ++ s
def showF (x : Float) : String := if x.isNaN then "nan" else hex16 x.toBits.toNat
def showFs (l : List Float) : String := " ".intercalate (l.map showF)
def showNs (l : List Nat) : String := " ".intercalate (l.map toString)
def showPs (l : List (Nat × Nat)) : String := " ".intercalate (l.map fun p => s!"{p.1},{p.2}")
def showT3 (l : List (Nat × Nat × Nat)) : String := " ".intercalate (l.map fun p => s!"{p.1},{p.2.1},{p.2.2}")
def showBs (l : List Bool) : String := " ".intercalate (l.map fun b => if b then "1" else "0")
def showMat (m : Mat Float) : String := " ".intercalate (m.toList.map fun r => showFs r.toList)

def matOf (rows cols : Nat) (l : List Float) : Mat Float :=
  ((List.range rows).map fun r => ((l.drop (r * cols)).take cols).toArray).toArray

def pairsP (n : Nat) : P (List Pair) := many n do let a ← nat; let b ← nat; pure (a, b)

/-! mechanism: `nrx` then per reaction `nr ids… np (id yield)…`; a reactant id ≥ 1000000 is a
    parameterized species named `M<id-1000000>`.  Species `i` is named `s<i>`. -/
def spName (i : Nat) : SpecRef := if i ≥ 1000000 then ⟨s!"M{i - 1000000}", true⟩ else ⟨s!"s{i}", false⟩

def mechP : P (List (Process Float)) := do
  let nrx ← nat
  many nrx do
    let nr ← nat
    let rs ← nats nr
    let np ← nat
    let ps ← many np do let i ← nat; let y ← flt; pure (spName i, y)
    pure { reactants := rs.map spName, products := ps }

/-- name map: species `s<i>` ↦ perm[i] -/
def nameMapOf (perm : List Nat) : NameMap :=
  (perm.zipIdx).foldl (fun m p => nmInsert m s!"s{p.2}" p.1) []

def errStr : Err → String
  | .sys c k => s!"err {c.replace " " "_"} {k}"
  | .outOfRange => "err std::out_of_range 0"
  | .runtime => "err std::runtime_error 0"
  | .hang => "hang"

def matErrStr (e : MatErr) : String := s!"E{e.code}"

/-! ### sparse container probe -/
def sparseCase : P String := do
  let n ← nat; let csc ← boolT; let L ← nat; let blocks ← nat; let ne ← nat
  let es ← pairsP ne
  let set := setOfList es
  let p := Pattern.mk' n csc L set
  let idx := (List.range (blocks + 1)).flatMap fun b => (List.range (n + 1)).flatMap fun r =>
    (List.range (n + 1)).map fun c =>
      match p.vectorIndex blocks b r c with | .ok k => toString k | .error e => matErrStr e
  let zs := (List.range (n + 1)).flatMap fun r => (List.range (n + 1)).map fun c =>
    match p.isZero r c with | .ok b => (if b then "1" else "0") | .error e => matErrStr e
  -- AddToDiagonal on index-coded data: data[i] = i, add 0.5
  let vs := p.vectorSize blocks
  let data : Array Float := (Array.range vs).map Nat.toFloat
  let d2 := addToDiagonalFlat p blocks data 0.5
  let touched := (List.range vs).filter fun i => rd d2 i != rd data i
  pure s!"sparse size={vs} idx={" ".intercalate idx} zero={" ".intercalate zs} diag={showNs (p.diagonalIndices blocks)} addd={showNs touched}"

/-! ### dense container probe -/
def denseCase : P String := do
  let L ← nat; let rows ← nat; let cols ← nat
  let s : DenseShape := ⟨rows, cols, L⟩
  let addrs := (List.range rows).flatMap fun x => (List.range cols).map fun y => s.addr x y
  -- index-coded data, row extraction of every row, axpy with alpha=2 on x = data
  let data : Array Float := (Array.range s.size).map fun i => (i + 1).toFloat
  let ext := (List.range rows).flatMap fun x => rowExtract s data x
  let y0 : Array Float := Array.replicate s.size 1.0
  let ax := axpyFlat s 2.0 data y0
  let touched := (List.range s.size).filter fun i => rd ax i != 1.0
  -- row assignment of row r := [100, 101, ...] for each row, sequentially
  let asg := (List.range rows).foldl (fun d x =>
    match rowAssign s d x ((List.range cols).map fun y => (1000 * (x + 1) + y).toFloat) with
    | .ok d => d | .error _ => d) data
  -- row assignment from a longer vector (the surplus is ignored), last row first
  let zero : Array Float := Array.replicate s.size 0.0
  let asgx := (List.range rows).reverse.foldl (fun d x =>
    let n := cols + 1 + x % 2
    match rowAssign s d x ((List.range n).map fun y =>
        if y < cols then (1000 * (x + 1) + y).toFloat else (7000000 + 10 * x + y).toFloat) with
    | .ok d => d | .error _ => d) zero
  -- Max / Min act on every storage slot (`for (auto& y : data_)`)
  let thr := (s.size / 2).toFloat + 0.5
  let val := fun (i : Nat) => ((i * 7919) % (s.size + 1) + 1).toFloat
  let vals : Array Float := (Array.range s.size).map val
  let mxA := maxFlat floatOps vals thr
  let mnA := minFlat floatOps vals thr
  let mx := (List.range s.size).filter fun i => rd mxA i != val i
  let mn := (List.range s.size).filter fun i => rd mnA i != val i
  -- ForEach with two and three operands on index-coded data; Fill; Copy / Swap incl. a size mismatch
  let fe2 := forEach2Flat s (fun t a => t * 3.0 + a) data vals
  let fe3 := forEach3Flat s (fun t a b => t + a * b) data vals data
  let fl := fillFlat data 7.5
  let other : Array Float := Array.replicate (s.size + (if s.size % 2 == 0 then 0 else 1)) 2.5
  let cp := match copyFlat data other with | some d => showFs d.toList | none => "runtime_error"
  let sw := match swapFlat data other with | some (a, b) => showFs (a.toList ++ b.toList) | none => "runtime_error"
  pure s!"dense size={s.size} addr={showNs addrs} ext={showFs ext} cext={showFs ext} axpy={showNs touched} asg={showFs asg.toList} asgx={showFs asgx.toList} max={showNs mx} min={showNs mn} fe2={showFs fe2.toList} fe3={showFs fe3.toList} fill={showFs fl.toList} copy={cp} swap={sw}"

/-! ### forcing -/
def forcingCase : P String := do
  let _L ← nat; let ncell ← nat; let ns ← nat
  let perm ← nats ns
  let mech ← mechP
  let nrx := mech.length
  let k ← flts (ncell * nrx); let y ← flts (ncell * ns); let f0 ← flts (ncell * ns)
  match ProcessSet.build mech (nameMapOf perm) with
  | .error e => pure (errStr e.toErr)
  | .ok t =>
    let K := matOf ncell nrx k; let Y := matOf ncell ns y; let F := matOf ncell ns f0
    let out := F.mapIdx fun c fr => t.addForcingCell (K.getD c #[]) (Y.getD c #[]) fr
    pure s!"forcing nr={showNs t.nReact} rid={showNs t.reactIds} np={showNs t.nProd} pid={showNs t.prodIds} f={showMat out}"

/-! ### jacobian -/
def jacobianCase : P String := do
  let ncell ← nat; let ns ← nat; let csc ← boolT; let L ← nat
  let perm ← nats ns
  let mech ← mechP
  let nrx := mech.length
  let k ← flts (ncell * nrx); let y ← flts (ncell * ns)
  match ProcessSet.build mech (nameMapOf perm) with
  | .error e => pure (errStr e.toErr)
  | .ok t =>
    let nz := t.nonZeroJacobianElements
    let set := buildJacobianSet ns nz
    let p := Pattern.mk' ns csc L set
    match t.jacobianFlatIds p with
    | .error e => pure (errStr e.toErr)
    | .ok flat =>
      let K := matOf ncell nrx k; let Y := matOf ncell ns y
      let J0 : Mat Float := Array.replicate ncell (Array.replicate p.nnz 0.0)
      let J := J0.mapIdx fun c Jr => t.subtractJacobianCell flat (K.getD c #[]) (Y.getD c #[]) Jr
      -- print in (row,col) order
      let out := J.toList.flatMap fun Jr => set.map fun e => rd Jr (p.rk e.1 e.2)
      let info := t.jInfo.map fun i => s!"{i.pid},{i.ind},{i.nDep},{i.nProd}"
      pure s!"jacobian nz={showPs nz} info={" ".intercalate info} flat={showNs flat} J={showFs out}"

/-! ### LU + linear solve -/
def luKindOf : Nat → LUKind
  | 0 => .doolittle | 1 => .mozart | 2 => .doolittleInPlace | _ => .mozartInPlace

def showStreams (la : LinAlg) : String :=
  match la.kind with
  | .doolittle =>
    let s := flattenDoolittle la.A.n la.Up la.dRows
    s!"niLU={showPs s.niLU} doAik={showBs s.doAik} aik={showNs s.aik} uikNkj={showPs s.uikNkj} lijUjk={showPs s.lijUjk} doAki={showBs s.doAki} aki={showNs s.aki} lkiNkj={showPs s.lkiNkj} lkjUji={showPs s.lkjUji} uii={showNs s.uii}"
  | .mozart =>
    let s := flattenMozart la.mInit la.mRows
    s!"t1={showT3 s.liiNujiNlji} ujiAji={showPs s.ujiAji} ljiAji={showPs s.ljiAji} fillU={showNs s.fillUji} fillL={showNs s.fillLji} t2={showT3 s.uiiNjNk} lji={showNs s.lji} t3={showT3 s.nujkNljkUik} ujkLji={showPs s.ujkLji} ljkLji={showPs s.ljkLji}"
  | .doolittleInPlace =>
    let s := flattenDoolittleInPlace la.diRows
    s!"t1={showT3 s.nikNkiAii} aikNjk={showPs s.aikNjk} aijAjk={showPs s.aijAjk} akiNji={showPs s.akiNji} akjAji={showPs s.akjAji}"
  | .mozartInPlace =>
    let s := flattenMozartInPlace la.miRows
    s!"t1={showT3 s.aiiNjiNki} aji={showNs s.aji} aikNjk={showPs s.aikNjk} ajkAji={showPs s.ajkAji}"

def showSub (rows : List SubRow) : String :=
  " ".intercalate (rows.map fun r => s!"{r.diag}:" ++ ",".intercalate (r.pairs.map fun p => s!"{p.1}.{p.2}"))

/-- values given in (row,col)-lex order of `set` → per-cell array in rank order of `p` -/
def toRankOrder (p : Pattern) (set : List Pair) (vals : List Float) (fill : Float) : Array Float :=
  (set.zip vals).foldl (fun a ev => wr a (p.rk ev.1.1 ev.1.2) ev.2) (Array.replicate p.nnz fill)

def fromRankOrder (p : Pattern) (set : List Pair) (a : Array Float) : List Float :=
  set.map fun e => rd a (p.rk e.1 e.2)

/-- storage-order element set of a pattern back in (row,col) lex order -/
def Pattern.rcSet (p : Pattern) : List Pair := if p.csc then setOfList (p.elems.map fun e => (e.2, e.1)) else p.elems

def luCase : P String := do
  let kind := luKindOf (← nat)
  let n ← nat; let csc ← boolT; let L ← nat; let blocks ← nat; let ne ← nat
  let es ← pairsP ne
  let set := setOfList es
  let jac := Pattern.mk' n csc L set
  let la := LinAlg.build kind jac
  let avals ← flts (blocks * set.length)
  let garbage ← flt
  let b ← flts (blocks * n)
  let lset := Pattern.rcSet la.Lp; let uset := Pattern.rcSet la.Up
  let cells := (List.range blocks).map fun c =>
    let av := (avals.drop (c * set.length)).take set.length
    let bv := ((b.drop (c * n)).take n).toArray
    if kind.inPlace then
      -- the in-place matrix holds A on A's pattern and 0 on fill-in slots
      let M := toRankOrder la.A set av 0.0
      let M := match kind with
        | .doolittleInPlace => doolittleInPlaceCell la.diRows M
        | _ => mozartInPlaceCell la.miRows M
      let x := solveInPlaceCell la.fw la.bw M bv
      (fromRankOrder la.A lset M, ([] : List Float), x.toList)
    else
      let A := toRankOrder la.A set av 0.0
      let L0 : Array Float := Array.replicate la.Lp.nnz garbage
      let U0 : Array Float := Array.replicate la.Up.nnz garbage
      let (Lo, Up) := match kind with
        | .doolittle => doolittleCell la.dRows A (L0, U0)
        | _ => mozartCell la.mInit la.mRows A (L0, U0)
      let x := solveCell la.fw la.bw Lo Up bv
      (fromRankOrder la.Lp lset Lo, fromRankOrder la.Up uset Up, x.toList)
  let lv := cells.flatMap (·.1); let uv := cells.flatMap (·.2.1); let xv := cells.flatMap (·.2.2)
  pure s!"lu Lp={showPs lset} Up={showPs uset} {showStreams la} fw={showSub la.fw} bw={showSub la.bw} L={showFs lv} U={showFs uv} x={showFs xv}"

/-! ### whole solve -/
def statusStr : Status → String
  | .notYetCalled => "NotYetCalled" | .running => "Running" | .converged => "Converged"
  | .convergenceExceededMaxSteps => "ConvergenceExceededMaxSteps" | .stepSizeTooSmall => "StepSizeTooSmall"
  | .repeatedlySingularMatrix => "RepeatedlySingularMatrix" | .nanDetected => "NaNDetected"
  | .infDetected => "InfDetected" | .acceptingUnconvergedIntegration => "AcceptingUnconvergedIntegration"
  | .outOfFuel => "hang"

def floatConsts : Consts Float := { deltaMin := 1.0e-6, errorMin := 1.0e-10, tenth := 0.1, ten := 10 }

def rosParamsP : P (RosParams Float) := do
  let stages ← nat
  let nt := stages * (stages - 1) / 2
  let a ← flts nt; let c ← flts nt; let m ← flts stages; let e ← flts stages
  let gamma0 ← flt
  let newF ← many stages boolT
  let _ ← many (6 - stages) boolT      -- entries of the std::array<bool, 6> beyond `stages` (never read)
  let order ← flt
  let roundOff ← flt; let fmin ← flt; let fmax ← flt; let rejDec ← flt; let safety ← flt
  let hmin ← flt; let hmax ← flt; let hstart ← flt
  let maxSteps ← nat
  pure { stages, a := a.toArray, c := c.toArray, m := m.toArray, e := e.toArray, gamma0, newF := newF.toArray,
         order, roundOff, fmin, fmax, rejDec, safety, hmin, hmax, hstart, maxSteps }

def beParamsP : P (BEParams Float) := do
  let small ← flt; let hstart ← flt; let maxSteps ← nat; let nr ← nat
  let reductions ← flts nr
  pure { small, hstart, maxSteps, reductions }

structure Problem where
  cfg : SolverCfg Float
  set : List Pair            -- declared jacobian element set (with diagonal), (row,col) order
  ncell : Nat

def mkCfg (ns L : Nat) (csc : Bool) (kind : LUKind) (t : PSTables Float) : Except Err Problem := do
  let nz := t.nonZeroJacobianElements
  let set := buildJacobianSet ns nz
  let sparseL := L       -- vector dense layout pairs with the vector sparse ordering of the same L
  let jac := Pattern.mk' ns csc sparseL set
  let la := LinAlg.build kind jac
  let flat ← (t.jacobianFlatIds la.A).mapError MatErr.toErr
  pure { cfg := { nSpecies := ns, L, tables := t, flatIds := flat, la, diag := la.A.diagRanks }, set, ncell := 0 }

def freshScratch (cfg : SolverCfg Float) (ncell stages : Nat) (g : Float) : Scratch Float :=
  let dm : Mat Float := Array.replicate ncell (Array.replicate cfg.nSpecies g)
  { jac := Array.replicate ncell (Array.replicate cfg.la.A.nnz g)
    lower := Array.replicate ncell (Array.replicate cfg.la.Lp.nnz g)
    upper := Array.replicate ncell (Array.replicate cfg.la.Up.nnz g)
    ynew := dm, f0 := dm, k := Array.replicate stages dm, yerr := dm }

def showStats (s : Stats) : String :=
  s!"{s.functionCalls},{s.jacobianUpdates},{s.numberOfSteps},{s.accepted},{s.rejected},{s.decompositions},{s.solves}"

def showTrace (cfg : SolverCfg Float) (tr : List (Attempt Float)) (limit : Nat) : String :=
  let aset := Pattern.rcSet cfg.la.A
  " ".intercalate ((tr.take limit).map fun a =>
    "[" ++ showFs (a.matrix.toList.flatMap fun r => fromRankOrder cfg.la.A aset r) ++ "]")

/-- `solve` (reordering off, species `s<i>` declared at position perm[i], direct index access) and `bsolve`
    (`byName`: the user path — tolerances are species properties, a negative input meaning "no property"; the builder
    may reorder the state; concentrations go in and out through the built name map) -/
def solveCaseG (byName : Bool) : P String := do
  let integ ← nat           -- 0 rosenbrock, 1 backward euler
  let L ← nat; let csc ← boolT; let kind := luKindOf (← nat)
  let reorder ← if byName then boolT else pure false
  let clamp ← boolT         -- Solver::Solve (with Max(0)) or the 3-argument overload (no clamp)
  let ncell ← nat; let ns ← nat
  let perm ← nats ns
  let mech ← mechP
  let nrx := mech.length
  let k ← flts (ncell * nrx); let y ← flts (ncell * ns)
  let atol ← flts ns; let rtol ← flt; let dt ← flt
  let traceLimit ← nat
  -- by name: `SolverBuilder::Build` on the system that declares `s<i>` at position perm[i]
  let decl : List (SpeciesDecl Float) := (List.range ns).map fun j =>
    let i := (perm.idxOf j)
    { name := s!"s{i}", param := false, atol := if atol.getD i 0.0 < 0.0 then none else some (atol.getD i 0.0) }
  let built : Except Err (PSTables Float × List Nat × Option (Array Float)) :=
    if byName then
      (build (1.0e-3 : Float) (fun ps => (List.range ps.length).map fun i => s!"r{i}")
        { system := some { gas := decl, phases := [] }, reactions := some mech, ignoreUnused := true, reorder }).map
        fun b => (b.tables, (List.range ns).map (fun i => (nmLookup b.speciesMap s!"s{i}").getD 0), some b.atol)
    else
      ((ProcessSet.build mech (nameMapOf perm)).mapError PSErr.toErr).map fun t => (t, perm, none)
  match built with
  | .error e => pure (errStr e)
  | .ok (t, perm, batol) =>
  match mkCfg ns L csc kind t with
  | .error e => pure (errStr e)
  | .ok pr =>
    -- inputs are given per species `s<i>`; the state column of `s<i>` is `perm[i]`
    let toIdx := fun (row : List Float) => ((perm.zip row).foldl (fun a pv => wr a pv.1 pv.2) (Array.replicate ns 0.0))
    let K := matOf ncell nrx k
    let Y : Mat Float := ((List.range ncell).map fun c => toIdx ((y.drop (c * ns)).take ns)).toArray
    let atol := match batol with | some a => a.toList | none => (toIdx atol).toList
    let res ← if integ == 0 then do
        let p ← rosParamsP
        pure (rosSolve floatOps floatConsts pr.cfg p K atol.toArray rtol dt Y (freshScratch pr.cfg ncell p.stages 0.0) 200000)
      else do
        let p ← beParamsP
        pure (beSolve (α := Float) floatOps pr.cfg p K atol.toArray rtol dt Y (freshScratch pr.cfg ncell 1 0.0) 200000)
    let Yf := if clamp then clampNonNeg floatOps res.Y else res.Y
    let Yf := Yf.map fun row => (perm.map fun i => rd row i).toArray
    -- per attempted Rosenbrock step: the alpha handed to AlphaMinusJacobian and the error norm (first 48)
    let att := if integ == 0 && traceLimit > 0 then
        " ".intercalate ((res.trace.take 48).map fun a => s!"{showF a.alpha}:{showF a.error}") else ""
    -- by-name variant: the forcing at the initial state, reported per species name
    let f0 : Mat Float := pr.cfg.forcing K Y (Y.map fun row => row.map fun _ => 0.0)
    let f0n := f0.map fun row => (perm.map fun i => rd row i).toArray
    let extra := if byName then s!" col={showNs perm} atol={showFs (perm.map fun i => atol.getD i 0.0)} f0={showMat f0n}" else ""
    pure s!"solve status={statusStr res.status} final={showF res.finalTime} stats={showStats res.stats} y={showMat Yf}{extra} trace={showTrace pr.cfg res.trace traceLimit} att={att}"

def solveCase : P String := solveCaseG false
def bsolveCase : P String := solveCaseG true

def runLine (line : String) : String :=
  let toks := (line.trimAscii.toString.splitOn " ").filter (· != "")
  match toks with
  | [] => ""
  | cmd :: rest =>
    let p : P String := match cmd with
      | "sparse" => sparseCase
      | "dense" => denseCase
      | "forcing" => forcingCase
      | "jacobian" => jacobianCase
      | "lu" => luCase
      | "solve" => solveCase
      | "bsolve" => bsolveCase
      | _ => pure "bad-op"
    (p.run rest).1

end Micm.Driver

namespace Micm.Driver
open Micm

/-! ### builder (C14 / C20): `build <hasSystem> <hasReactions> <ignoreUnused> <reorder> <system> <mech-by-name>` -/

/-- species declaration: name, param flag, hasAtol, atol -/
def speciesDeclP : P (SpeciesDecl Float) := do
  let name ← tok; let param ← boolT; let has ← boolT; let v ← flt
  pure { name, param, atol := if has then some v else none }

def systemP : P (SystemDecl Float) := do
  let ng ← nat
  let gas ← many ng speciesDeclP
  let nph ← nat
  let phases ← many nph do
    let pname ← tok; let _objname ← tok; let k ← nat   -- the Phase object's own name plays no role
    let sp ← many k speciesDeclP
    pure (pname, sp)
  pure { gas, phases }

/-- reactions by species *name*: nrx, per reaction nr (name param)… np (name param yield)… -/
def namedMechP : P (List (Process Float)) := do
  let nrx ← nat
  many nrx do
    let nr ← nat
    let rs ← many nr do let n ← tok; let p ← boolT; pure (⟨n, p⟩ : SpecRef)
    let np ← nat
    let ps ← many np do let n ← tok; let p ← boolT; let y ← flt; pure ((⟨n, p⟩ : SpecRef), y)
    pure { reactants := rs, products := ps }

def buildCase : P String := do
  let hasSys ← boolT      -- 1: set; 2: set after another system was set on the same builder (value semantics: same as 1)
  let hasRx ← nat; let ignoreUnused ← boolT; let reorder ← boolT
  let sys ← systemP
  let mech ← namedMechP
  let inp : BuildInput Float := { system := if hasSys then some sys else none,
                                  reactions := if hasRx == 0 then none else if hasRx == 1 then some mech else some [], ignoreUnused, reorder }
  match build (1.0e-3 : Float) (fun ps => (List.range ps.length).map fun i => s!"r{i}") inp with
  | .error e => pure (errStr e)
  | .ok b =>
    let mp := " ".intercalate (b.speciesMap.map fun e => s!"{e.1}:{e.2}")
    pure s!"build map={mp} names={" ".intercalate b.variableNames} atol={showFs b.atol.toList}"

/-- standalone `DiagonalMarkowitzReorder` on an n x n 0/1 pattern -/
def markowitzCase : P String := do
  let n ← nat
  let bits ← nats (n * n)
  let pat : IMat := ((List.range n).map fun i => ((bits.drop (i * n)).take n).toArray).toArray
  match markowitz n pat with
  | .ok perm => pure s!"markowitz perm={showNs perm.toList}"
  | .error e => pure (errStr e)

/-! ### rate constants (C15) -/
def floatTOps : TOps Float :=
  { exp := Float.exp, pow := Float.pow, log10 := Float.log10, sqrt := Float.sqrt,
    ofInt := fun i => Float.ofInt i, lit := id }

def rateKindP : P (RateProc Float) := do
  let kind ← nat
  let npr ← nat     -- number of parameterized (third body) reactants
  let k ← match kind with
    | 0 => do let v ← flts 5; pure (RateKind.arrhenius (v.getD 0 0) (v.getD 1 0) (v.getD 2 0) (v.getD 3 0) (v.getD 4 0))
    | 1 => do let v ← flts 8; pure (RateKind.troe (v.getD 0 0) (v.getD 1 0) (v.getD 2 0) (v.getD 3 0) (v.getD 4 0) (v.getD 5 0) (v.getD 6 0) (v.getD 7 0))
    | 2 => do let v ← flts 8; pure (RateKind.ternary (v.getD 0 0) (v.getD 1 0) (v.getD 2 0) (v.getD 3 0) (v.getD 4 0) (v.getD 5 0) (v.getD 6 0) (v.getD 7 0))
    | 3 => do let alk ← boolT; let v ← flts 3; let n ← nat; pure (RateKind.branched alk (v.getD 0 0) (v.getD 1 0) (v.getD 2 0) (Int.ofNat n))
    | 4 => do let v ← flts 3; pure (RateKind.tunneling (v.getD 0 0) (v.getD 1 0) (v.getD 2 0))
    | 5 => do
      let l ← tok; let v ← flts 3   -- diffusion coefficient, molecular weight, reaction probability
      let gasConstant : Float := 1.380649e-23 * 6.02214076e23
      let mfs := 8.0 * gasConstant / (3.14159265358979323846 * v.getD 1 0)
      pure (RateKind.surface l (v.getD 0 0) mfs (v.getD 2 0))
    | _ => do let l ← tok; let s ← flt; pure (RateKind.userDefined l s)
  pure { kind := k, nParamReactants := npr }

def ratesCase : P String := do
  let _L ← nat; let ncell ← nat; let nproc ← nat
  let procs ← many nproc rateKindP
  let conds ← many ncell do let t ← flt; let p ← flt; let a ← flt; pure ({ temperature := t, pressure := p, airDensity := a } : Conditions Float)
  let labels := procs.flatMap fun p => p.kind.labels
  -- parameter values given per label (in label order), per cell
  let vals ← flts (ncell * labels.length)
  let params := matOf ncell labels.length vals
  let pi : Float := 3.14159265358979323846
  let avogadro : Float := 6.02214076e23
  let rc := calculateRateConstants floatTOps pi avogadro procs conds.toArray params
  pure s!"rates labels={" ".intercalate (labels.map fun l => l.replace " " "_")} k={showMat rc}"

/-! ### State histories (C11 / C17 / C20 setters) -/

structure HState where
  owner : Nat := 0       -- which of the two solvers the State belongs to
  sm : MState Float      -- `variables_`, `custom_rate_parameters_`, tolerances, name maps (Model/State.lean)
  K : Mat Float
  conds : Array (Conditions Float) := #[]
  sc : Scratch Float
  deriving Inhabited

/-- outcome string of a setter modelled in `Model/State.lean` -/
def setterOut (r : Except Err (MState Float)) : Option (MState Float) × String :=
  match r with
  | .ok sm => (some sm, "ok")
  | .error e => (none, errStr e)

/-- `k` entries `name n v₁ … vₙ` -/
def kvsP (k : Nat) : P (List (String × List Float)) :=
  many k do let name ← tok; let n ← nat; let vs ← flts n; pure (name, vs)

def histCase : P String := do
  let integ ← nat; let L ← nat; let csc ← boolT; let kind := luKindOf (← nat)
  let ncell ← nat; let ns ← nat
  let mech ← mechP
  let nrx := mech.length
  let rosP ← if integ == 0 then rosParamsP else pure default
  let beP ← if integ == 0 then pure default else beParamsP
  let integ2 ← nat
  let rosP2 ← if integ2 == 0 then rosParamsP else pure default
  let beP2 ← if integ2 == 0 then pure default else beParamsP
  let nops ← nat
  let m := nameMapOf (List.range ns)
  match ProcessSet.build mech m with
  | .error e => pure (errStr e.toErr)
  | .ok t =>
  match mkCfg ns L csc kind t with
  | .error e => pure (errStr e)
  | .ok pr =>
    let stages := if integ == 0 then rosP.stages else 1
    let stages2 := if integ2 == 0 then rosP2.stages else 1
    let sm0 : MState Float :=
      { varMap := m, parMap := (List.range nrx).foldl (fun mm i => nmInsert mm s!"r{i}" i) [], nVars := ns, nPars := nrx,
        vars := Array.replicate ncell (Array.replicate ns 0.0), pars := Array.replicate ncell (Array.replicate nrx 0.0),
        atol := Array.replicate ns 1.0e-3, rtol := 1.0e-6 }
    let fresh : HState := { sm := sm0, K := Array.replicate ncell (Array.replicate nrx 0.0),
                            conds := Array.replicate ncell { temperature := 0.0, pressure := 0.0, airDensity := 0.0 },
                            sc := freshScratch pr.cfg ncell stages 0.0 }
    let mut store : Array (Option HState) := Array.replicate 8 none
    let mut outs : List String := []
    for _ in [0:nops] do
      let op ← tok
      match op with
      | "new" =>
        let s ← nat
        store := store.setIfInBounds s (some fresh); outs := outs ++ ["ok"]
      | "new2" =>
        let s ← nat
        store := store.setIfInBounds s (some { fresh with owner := 1, sc := freshScratch pr.cfg ncell stages2 0.0 }); outs := outs ++ ["ok"]
      | "setc" =>
        let s ← nat; let i ← nat; let vals ← flts ncell
        match store.getD s none with
        | some st =>
          let (r, out) := setterOut (st.sm.setConcentration s!"s{i}" vals)
          store := store.setIfInBounds s (some { st with sm := r.getD st.sm }); outs := outs ++ [out]
        | none => outs := outs ++ ["nostate"]
      | "setk" =>
        let s ← nat; let vals ← flts (ncell * nrx)
        match store.getD s none with
        | some st => store := store.setIfInBounds s (some { st with K := matOf ncell nrx vals }); outs := outs ++ ["ok"]
        | none => outs := outs ++ ["nostate"]
      | "setcond" =>
        let s ← nat; let c ← nat; let v ← flts 3
        match store.getD s none with
        | some st =>
          let conds := st.conds.setIfInBounds c { temperature := v.getD 0 0.0, pressure := v.getD 1 0.0, airDensity := v.getD 2 0.0 }
          store := store.setIfInBounds s (some { st with conds }); outs := outs ++ ["ok"]
        | none => outs := outs ++ ["nostate"]
      | "setp" =>
        let s ← nat; let rr ← nat; let vals ← flts ncell
        match store.getD s none with
        | some st =>
          let (r, out) := setterOut (st.sm.setParameter s!"r{rr}" vals)
          store := store.setIfInBounds s (some { st with sm := r.getD st.sm }); outs := outs ++ [out]
        | none => outs := outs ++ ["nostate"]
      | "calc" =>
        let s ← nat
        match store.getD s none with
        | some st =>
          -- every reaction of a history mechanism has a user-defined rate constant labelled `r<i>` with scaling factor 1
          let rprocs : List (RateProc Float) := mech.zipIdx.map fun (p, i) =>
            { kind := .userDefined s!"r{i}" 1.0, nParamReactants := (p.reactants.filter (·.param)).length }
          let K := calculateRateConstants floatTOps 3.14159265358979323846 6.02214076e23 rprocs st.conds st.sm.pars
          store := store.setIfInBounds s (some { st with K }); outs := outs ++ [showMat K]
        | none => outs := outs ++ ["nostate"]
      | "mvs_c" | "mvs_a" | "mvs_x" => let _ ← nat; outs := outs ++ ["ok"]
      | "settol" =>
        let s ← nat; let atl ← flts ns; let rt ← flt
        match store.getD s none with
        | some st =>
          store := store.setIfInBounds s (some { st with sm := (st.sm.setAbsoluteTolerances atl).setRelativeTolerance rt })
          outs := outs ++ ["ok"]
        | none => outs := outs ++ ["nostate"]
      | "garbage" =>
        let s ← nat; let g ← flt
        match store.getD s none with
        | some st => store := store.setIfInBounds s (some { st with sc := freshScratch pr.cfg ncell (if st.owner == 0 then stages else stages2) g }); outs := outs ++ ["ok"]
        | none => outs := outs ++ ["nostate"]
      | "solve" =>
        let s ← nat; let dt ← flt
        match store.getD s none with
        | some st =>
          let (ig, rp, bp) := if st.owner == 0 then (integ, rosP, beP) else (integ2, rosP2, beP2)
          let res := if ig == 0 then rosSolve floatOps floatConsts pr.cfg rp st.K st.sm.atol st.sm.rtol dt st.sm.vars st.sc 200000
                     else beSolve (α := Float) floatOps pr.cfg bp st.K st.sm.atol st.sm.rtol dt st.sm.vars st.sc 200000
          let Yf := clampNonNeg floatOps res.Y
          store := store.setIfInBounds s (some { st with sm := { st.sm with vars := Yf }, sc := res.sc })
          outs := outs ++ [s!"{statusStr res.status} {showF res.finalTime} {showStats res.stats} {showMat Yf}"]
        | none => outs := outs ++ ["nostate"]
      | "solvex" =>
        let s ← nat; let dt ← flt
        match store.getD s none with
        | some st =>
          -- the other solver's parameters on this State (its scratch keeps the owner's number of stage vectors)
          let (own, oth) := if st.owner == 0 then (stages, stages2) else (stages2, stages)
          if integ == 0 && integ2 == 0 && oth ≤ own then
            let rp := if st.owner == 0 then rosP2 else rosP
            let res := rosSolve floatOps floatConsts pr.cfg rp st.K st.sm.atol st.sm.rtol dt st.sm.vars st.sc 200000
            let Yf := clampNonNeg floatOps res.Y
            store := store.setIfInBounds s (some { st with sm := { st.sm with vars := Yf }, sc := res.sc })
            outs := outs ++ [s!"{statusStr res.status} {showF res.finalTime} {showStats res.stats} {showMat Yf}"]
          else outs := outs ++ ["skip"]
        | none => outs := outs ++ ["nostate"]
      | "dump" =>
        let s ← nat
        match store.getD s none with
        | some st => outs := outs ++ [showMat st.sm.vars]
        | none => outs := outs ++ ["nostate"]
      -- the setters of State with arbitrary arguments, through the model of state.inl (Model/State.lean)
      | "xsetc" | "xsetp" =>
        let s ← nat; let name ← tok; let n ← nat; let vals ← flts n
        match store.getD s none with
        | some st =>
          let (r, out) := setterOut (if op == "xsetc" then st.sm.setConcentration name vals else st.sm.setParameter name vals)
          store := store.setIfInBounds s (some { st with sm := r.getD st.sm }); outs := outs ++ [out]
        | none => outs := outs ++ ["nostate"]
      | "xsetc1" | "xsetp1" =>
        let s ← nat; let name ← tok; let v ← flt
        match store.getD s none with
        | some st =>
          let (r, out) := setterOut (if op == "xsetc1" then st.sm.setConcentrationScalar name v else st.sm.setParameterScalar name v)
          store := store.setIfInBounds s (some { st with sm := r.getD st.sm }); outs := outs ++ [out]
        | none => outs := outs ++ ["nostate"]
      | "xsetcs" | "xsetps" | "xsetcs_law" | "xsetps_law" =>
        let s ← nat; let k ← nat; let kvs ← kvsP k
        match store.getD s none with
        | some st =>
          let (sm, e) := if op.startsWith "xsetcs" then st.sm.setConcentrations kvs else st.sm.setParameters kvs
          store := store.setIfInBounds s (some { st with sm })
          -- the `_law` variants report whether the real object obeys the prefix law (theorem C20_bulk_prefix)
          outs := outs ++ [if op.endsWith "_law" then "law ok" else match e with | none => "ok" | some e => errStr e]
        | none => outs := outs ++ ["nostate"]
      | "xunsafep" =>
        let s ← nat; let nrows ← nat
        let rows ← many nrows do let n ← nat; flts n
        match store.getD s none with
        | some st =>
          let (sm, e) := st.sm.unsafelySetParameters rows
          store := store.setIfInBounds s (some { st with sm })
          outs := outs ++ [match e with | none => "ok" | some e => errStr e]
        | none => outs := outs ++ ["nostate"]
      | "xsettol" =>
        let s ← nat; let n ← nat; let atl ← flts n; let rt ← flt
        match store.getD s none with
        | some st =>
          store := store.setIfInBounds s (some { st with sm := (st.sm.setAbsoluteTolerances atl).setRelativeTolerance rt })
          outs := outs ++ ["ok"]
        | none => outs := outs ++ ["nostate"]
      | "dumpv" =>
        let s ← nat
        match store.getD s none with
        | some st => outs := outs ++ [s!"dumpv v={showMat st.sm.vars} p={showMat st.sm.pars} a={showFs st.sm.atol.toList} r={showF st.sm.rtol}"]
        | none => outs := outs ++ ["nostate"]
      | "cpc" | "cpa" | "cpa0" | "cpax" =>
        let s ← nat; let d ← nat
        store := store.setIfInBounds d (store.getD s none); outs := outs ++ ["ok"]
      | "mvc" | "mva" =>
        let s ← nat; let d ← nat
        store := store.setIfInBounds d (store.getD s none)
        if s != d then store := store.setIfInBounds s none
        outs := outs ++ ["ok"]
      -- rejected setter calls (C20): the model predicts the documented error; the state is unchanged
      | "bad_species" => let _ ← nat; outs := outs ++ ["err MICM_State 1"]
      | "bad_conc_len" => let _ ← nat; outs := outs ++ ["err MICM_State 3"]
      | "bad_label" => let _ ← nat; outs := outs ++ ["err MICM_State 2"]
      | "bad_param_len" => let _ ← nat; outs := outs ++ ["err MICM_State 5"]
      | "bad_conc_scalar" => let _ ← nat; outs := outs ++ [if ncell == 1 then "ok" else "err MICM_State 3"]
      | "bad_unsafe_cells" => let _ ← nat; outs := outs ++ ["err MICM_State 5"]
      | "bad_unsafe_params" => let _ ← nat; outs := outs ++ ["err MICM_State 4"]
      | _ => outs := outs ++ ["bad-op"]
    pure ("hist " ++ " | ".intercalate outs)

/-- flat-storage forcing (the whole `AsVector()`, padding lanes included) -/
def forcingFlatCase : P String := do
  let L ← nat; let ncell ← nat; let ns ← nat
  let perm ← nats ns
  let mech ← mechP
  let nrx := mech.length
  let k ← flts (ncell * nrx); let y ← flts (ncell * ns); let f0 ← flts (ncell * ns)
  match ProcessSet.build mech (nameMapOf perm) with
  | .error e => pure (errStr e.toErr)
  | .ok t =>
    let toFlat := fun (cols : Nat) (vals : List Float) =>
      let s : DenseShape := ⟨ncell, cols, L⟩
      ((List.range ncell).flatMap fun c => (List.range cols).map fun j => (s.addr c j, vals.getD (c * cols + j) 0.0)).foldl
        (fun a p => wr a p.1 p.2) (Array.replicate s.size 0.0)
    let out := t.addForcingFlat L ncell nrx ns (toFlat nrx k) (toFlat ns y) (toFlat ns f0)
    pure s!"forcingflat f={showFs out.toList}"

def toFlatDense (L ncell cols : Nat) (vals : List Float) : Array Float :=
  let s : DenseShape := ⟨ncell, cols, L⟩
  ((List.range ncell).flatMap fun c => (List.range cols).map fun j => (s.addr c j, vals.getD (c * cols + j) 0.0)).foldl
    (fun a p => wr a p.1 p.2) (Array.replicate s.size 0.0)

/-- flat-storage Jacobian (whole `AsVector()`) -/
def jacobianFlatCase : P String := do
  let ncell ← nat; let ns ← nat; let csc ← boolT; let L ← nat
  let perm ← nats ns
  let mech ← mechP
  let nrx := mech.length
  let k ← flts (ncell * nrx); let y ← flts (ncell * ns)
  match ProcessSet.build mech (nameMapOf perm) with
  | .error e => pure (errStr e.toErr)
  | .ok t =>
    let set := buildJacobianSet ns t.nonZeroJacobianElements
    let p := Pattern.mk' ns csc L set
    match t.jacobianFlatIds p with
    | .error e => pure (errStr e.toErr)
    | .ok flat =>
      let J0 : Array Float := Array.replicate (p.vectorSize ncell) 0.0
      let J := t.subtractJacobianFlat flat L ncell nrx ns p.nnz (toFlatDense L ncell nrx k) (toFlatDense L ncell ns y) J0
      pure s!"jacobianflat J={showFs J.toList}"

/-- flat-storage factorisation and solve for all four variants (whole `AsVector()` of L, U / the in-place matrix, and x) -/
def luFlatCase : P String := do
  let kind := luKindOf (← nat)
  let n ← nat; let csc ← boolT; let L ← nat; let blocks ← nat; let ne ← nat
  let es ← pairsP ne
  let set := setOfList es
  let jac := Pattern.mk' n csc L set
  let la := LinAlg.build kind jac
  let avals ← flts (blocks * set.length)
  let garbage ← flt
  let b ← flts (blocks * n)
  -- A values placed on the pattern of `la.A` (for in-place variants the ALU pattern; fill-in slots hold 0)
  let A : Array Float := ((List.range blocks).flatMap fun bl => (set.zipIdx).map fun ei =>
      (la.A.slot bl (la.A.rk ei.1.1 ei.1.2), avals.getD (bl * set.length + ei.2) 0.0)).foldl
    (fun a p => wr a p.1 p.2) (Array.replicate (la.A.vectorSize blocks) 0.0)
  let xb := toFlatDense L blocks n b
  match kind with
  | .doolittle | .mozart =>
    let L0 : Array Float := Array.replicate (la.Lp.vectorSize blocks) garbage
    let U0 : Array Float := Array.replicate (la.Up.vectorSize blocks) garbage
    let (Lo, Up) := if kind == .doolittle then doolittleFlat L blocks la.dRows jac.nnz la.Lp.nnz la.Up.nnz A (L0, U0)
                    else mozartFlat L blocks la.mInit la.mRows jac.nnz la.Lp.nnz la.Up.nnz A (L0, U0)
    let x := solveFlat L blocks n la.fw la.bw la.Lp.nnz la.Up.nnz Lo Up xb
    pure s!"luflat L={showFs Lo.toList} U={showFs Up.toList} x={showFs x.toList}"
  | _ =>
    let M := if kind == .doolittleInPlace then doolittleInPlaceFlat L blocks la.diRows la.A.nnz A
             else mozartInPlaceFlat L blocks la.miRows la.A.nnz A
    let x := solveInPlaceFlat L blocks n la.fw la.bw la.A.nnz M xb
    pure s!"luflat L={showFs M.toList} U= x={showFs x.toList}"

/-- `AlphaMinusJacobian` on index-coded flat storage -/
def alphaFlatCase : P String := do
  let n ← nat; let csc ← boolT; let L ← nat; let blocks ← nat; let ne ← nat
  let es ← pairsP ne
  let p := Pattern.mk' n csc L (setOfList es)
  let alpha ← flt
  let J0 : Array Float := (Array.range (p.vectorSize blocks)).map Nat.toFloat
  let J := alphaMinusJacobianFlat L blocks p.nnz p.diagRanks J0 alpha
  pure s!"alphaflat J={showFs J.toList}"

def luMixCase : P String := do
  let kind := luKindOf (← nat)
  let n ← nat; let csc ← boolT; let cscL ← boolT; let cscU ← boolT; let L ← nat; let blocks ← nat; let ne ← nat
  let es ← pairsP ne
  let set := setOfList es
  let jac := Pattern.mk' n csc L set
  let la := LinAlg.buildMixed kind jac cscL cscU
  let avals ← flts (blocks * set.length)
  let garbage ← flt
  let b ← flts (blocks * n)
  let lset := Pattern.rcSet la.Lp; let uset := Pattern.rcSet la.Up
  let cells := (List.range blocks).map fun c =>
    let av := (avals.drop (c * set.length)).take set.length
    let bv := ((b.drop (c * n)).take n).toArray
    let A := toRankOrder la.A set av 0.0
    let L0 : Array Float := Array.replicate la.Lp.nnz garbage
    let U0 : Array Float := Array.replicate la.Up.nnz garbage
    let (Lo, Up) := match la.kind with
      | .mozart => mozartCell la.mInit la.mRows A (L0, U0)
      | _ => doolittleCell la.dRows A (L0, U0)
    let x := solveCell la.fw la.bw Lo Up bv
    (fromRankOrder la.Lp lset Lo, fromRankOrder la.Up uset Up, x.toList)
  let lv := cells.flatMap (·.1); let uv := cells.flatMap (·.2.1); let xv := cells.flatMap (·.2.2)
  pure s!"lu Lp={showPs lset} Up={showPs uset} {showStreams la} fw={showSub la.fw} bw={showSub la.bw} L={showFs lv} U={showFs uv} x={showFs xv}"

/-- `NormalizedError` and `IsConverged` on given matrices -/
def normCase : P String := do
  let L ← nat; let ncell ← nat; let ns ← nat
  let atol ← flts ns; let rtol ← flt
  let y ← flts (ncell * ns); let yn ← flts (ncell * ns); let er ← flts (ncell * ns)
  let small ← flt
  let Y := matOf ncell ns y; let Yn := matOf ncell ns yn; let E := matOf ncell ns er
  let e := normalizedError floatOps floatConsts L ns atol.toArray rtol Y Yn E
  -- the same through the flat-storage model of the two C++ overloads
  let ef := normFlat floatOps floatConsts L ncell ns atol.toArray rtol (toFlatDense L ncell ns y) (toFlatDense L ncell ns yn) (toFlatDense L ncell ns er)
  let conv := beIsConverged floatOps small atol.toArray rtol E Yn
  pure s!"norm e={showF e} ef={showF ef} conv={if conv then 1 else 0}"

def errcCase : P String := do
  let which ← tok
  let okOr := fun (r : Except Err String) => match r with | .ok s => s | .error e => errStr e
  match which with
  | "surface" => do
    let nr ← nat
    -- (third-body mask and constructor flag follow: the documented check counts reactants of any kind)
    pure (okOr ((surfaceProcessCheck nr).map fun _ => s!"errc ok reactants={nr}"))
  | "property" => do
    let kind ← nat
    let (ty, present) := match kind with
      | 0 => (PropType.double, true) | 1 => (.double, false) | 2 => (.string, false) | 3 => (.bool, false)
      | 4 => (.int, false) | 5 => (.unsupported, true)
      -- the key exists under another value type: the map of the type asked for does not have it
      | 6 => (.double, false) | 7 => (.string, false) | 8 => (.int, false) | 9 => (.double, false) | 10 => (.bool, false)
      | _ => (.unsupported, true)
    pure (okOr ((getPropertyCheck ty present).map fun _ => if kind == 0 then s!"errc ok {showF 0.05}" else "errc ok"))
  | "ragged" => do
    let _L ← nat; let rows ← nat
    let lens ← nats rows
    pure (okOr ((nestedCheck lens).map fun rc => s!"errc ok {rc.1}x{rc.2}"))
  | "rowassign" => do
    let _L ← nat; let cols ← nat; let len ← nat
    pure (okOr ((rowAssignCheck cols len).map fun _ => "errc ok"))
  | "missingblock" => do
    let blocks ← nat
    -- pattern {(0,0),(1,1)}, one block: VectorIndex(1,1) = 1
    pure (okOr ((twoArgIndexCheck blocks).map fun _ => "errc ok 1"))
  | "builderelem" => do
    let n ← nat; let x ← nat; let y ← nat
    pure (match builderWithElement n [] x y with
      | .ok s => s!"errc ok {s.length}"
      | .error e => errStr e.toErr)
  | _ => pure "bad-op"

/-- two solvers for the same species in different internal orders; a State of the second is copy-assigned a State
    of the first (and the other way round); all reads are by name -/
def cpAssignCase : P String := do
  let _L ← nat; let ns ← nat; let ncell ← nat; let _reorder2 ← nat; let _ncell2 ← nat
  let perm1 ← nats ns; let perm2 ← nats ns
  let vals1 ← flts (ns * ncell); let vals2 ← flts (ns * ncell)
  let j ← nat; let newv ← flts ncell
  let _dt ← flt
  let mk : List Nat → MState Float := fun perm =>
    { varMap := (List.range ns).foldl (fun m i => nmInsert m s!"s{i}" (perm.getD i 0)) [], parMap := [], nVars := ns, nPars := 0,
      vars := matOf ncell ns (List.replicate (ns * ncell) 0.0), pars := matOf ncell 0 [], atol := #[], rtol := 0.0 }
  let fill := fun (st : MState Float) (vals : List Float) =>
    (List.range ns).foldl (fun st i => match st.setConcentration s!"s{i}" ((vals.drop (i * ncell)).take ncell) with
      | .ok st' => st' | .error _ => st) st
  let byName := fun (st : MState Float) =>
    (List.range ns).flatMap fun i => (List.range ncell).map fun c => (st.concentration s!"s{i}" c).getD (0.0 / 0.0)
  let a := fill (mk perm1) vals1
  let b := fill (mk perm2) vals2
  let b' := b.assign a
  let a2 := (fill (mk perm1) vals1).assign b
  let b'' := match b'.setConcentration s!"s{j}" newv with | .ok st => st | .error _ => b'
  pure s!"cpassign cons=1 byname={showFs (byName b')} rev={showFs (byName a2)} after_a={showFs (byName a)} after_b={showFs (byName b'')} solve_same=1"

/-! generated programs in a canonical text form (compared with the IR the implementation emits) -/
def showLoc : JLoc → String
  | .arg a off => s!"a{a}[i+{off}]"
  | .buf => "buf[i]"
def showExpr : JExpr Float → String
  | .ld l => showLoc l
  | .const c => s!"c{showF c}"
  | .scalar => "v1"
  | .mul a b => s!"mul({showExpr a},{showExpr b})"
  | .add a b => s!"add({showExpr a},{showExpr b})"
  | .sub a b => s!"sub({showExpr a},{showExpr b})"
  | .div a b => s!"div({showExpr a},{showExpr b})"
def showProg (p : JProg Float) : String := ";".intercalate (p.map fun lp => s!"{showLoc lp.dst}={showExpr lp.e}")

def listP {β} (p : P β) : P (List β) := do let n ← nat; many n p

def jitProgCase : P String := do
  let kind ← tok
  let L ← nat
  match kind with
  | "forcing" => do
    let nReact ← listP nat; let nProd ← listP nat; let rids ← listP nat; let pids ← listP nat; let ylds ← listP flt
    let t : PSTables Float := { nReact := nReact, nProd := nProd, reactIds := rids, prodIds := pids, yields := ylds }
    pure s!"jitprog forcing L={L} prog={showProg (t.genForcing L)}"
  | "jacobian" => do
    let infos ← listP do let pid ← nat; let nd ← nat; let np ← nat; pure ({ pid := pid, ind := 0, nDep := nd, nProd := np } : ProcessInfo)
    let jr ← listP nat; let jy ← listP flt; let flat ← listP nat
    let t : PSTables Float := { jInfo := infos, jReactIds := jr, jYields := jy }
    pure s!"jitprog jacobian L={L} prog={showProg (t.genJacobian flat L)}"
  | "lu" | "solve" | "alpha" => do
    let n ← nat; let ne ← nat
    let es ← pairsP ne
    let jac := Pattern.mk' n false L (setOfList es)
    let la := LinAlg.build .doolittle jac
    let prog : JProg Float := match kind with
      | "lu" => genDoolittle L la.dRows
      | "solve" => genSolve L la.fw la.bw
      | _ => genAlpha L jac.diagRanks
    pure s!"jitprog {kind} L={L} prog={showProg prog}"
  | _ => pure "bad-op"

def runLine2 (line : String) : String :=
  let toks := (line.trimAscii.toString.splitOn " ").filter (· != "")
  match toks with
  | [] => ""
  | cmd :: rest =>
    match cmd with
    | "build" => (buildCase.run rest).1
    | "markowitz" => (markowitzCase.run rest).1
    | "rates" => (ratesCase.run rest).1
    | "cpassign" => (cpAssignCase.run rest).1
    | "jitprog" => (jitProgCase.run rest).1
    | "hist" => (histCase.run rest).1
    | "forcingflat" => (forcingFlatCase.run rest).1
    | "norm" => (normCase.run rest).1
    | "jacobianflat" => (jacobianFlatCase.run rest).1
    | "luflat" => (luFlatCase.run rest).1
    | "lumix" => (luMixCase.run rest).1
    | "alphaflat" => (alphaFlatCase.run rest).1
    | "errc" => (errcCase.run rest).1
    | _ => runLine line

end Micm.Driver
