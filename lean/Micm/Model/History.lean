/-
L1 model of the value-semantics discipline of `State` (state.hpp) and of the rejected setter
calls (state.inl), as a small store machine.  The numerical content of a State is an abstract
value `σ`; `solve` is an abstract function.  What is modelled concretely is the polymorphic
`temporary_variables_` member: which dynamic type it holds after each construction / copy / move,
because `Solve` downcasts it (`static_cast`) — undefined behaviour unless it holds the solver's
own kind.
-/
namespace Micm

inductive TempKind | null | base | rosenbrock | backwardEuler
  deriving Repr, BEq, DecidableEq, Inhabited

structure HObj (σ : Type) where
  val : σ
  temp : TempKind
  deriving Inhabited

inductive HOp (σ : Type)
  | new (d : Nat)                       -- states[d] = solver.GetState()
  | set (s : Nat) (f : σ → σ)           -- a valid setter call
  | badSet (s : Nat) (code : Nat)       -- a rejected setter call (throws std::system_error `code`)
  | solve (s : Nat)
  | copyConstruct (s d : Nat)
  | copyAssign (s d : Nat)
  | moveConstruct (s d : Nat)
  | moveAssign (s d : Nat)

inductive HOut (ρ : Type)
  | ok | result (r : ρ) | err (code : Nat) | noState | ub
  deriving Inhabited

abbrev HStore (σ : Type) := Nat → Option (HObj σ)

def HStore.upd {σ} (st : HStore σ) (i : Nat) (v : Option (HObj σ)) : HStore σ := fun j => if j = i then v else st j

/-- how a copy obtains its `temporary_variables_`:
    `clone = true`  : `other.temporary_variables_->Clone()` (current source) — same dynamic kind;
    `clone = false` : `std::make_unique<TemporaryVariables>(*other…)` (source before the fix) — the base class only. -/
def copyTemp (clone : Bool) (k : TempKind) : TempKind :=
  if clone then k else (match k with | .null => .null | _ => .base)

variable {σ ρ : Type}

/-- one operation.  `kind` is the solver's temporary-variable kind, `fresh` the value of a new
    State, `solveF` the (pure) effect of `Solve` on the value. -/
def hStep (clone : Bool) (kind : TempKind) (fresh : σ) (solveF : σ → σ × ρ)
    (st : HStore σ) : HOp σ → HStore σ × HOut ρ
  | .new d => (st.upd d (some ⟨fresh, kind⟩), .ok)
  | .set s f => match st s with
    | some o => (st.upd s (some { o with val := f o.val }), .ok)
    | none => (st, .noState)
  | .badSet s code => match st s with
    | some _ => (st, .err code)          -- validation happens before any write: the State is unchanged
    | none => (st, .noState)
  | .solve s => match st s with
    | some o =>
      if o.temp = kind then
        let (v, r) := solveF o.val
        (st.upd s (some { o with val := v }), .result r)
      else (st, .ub)                     -- static_cast to the wrong dynamic type
    | none => (st, .noState)
  | .copyConstruct s d | .copyAssign s d => match st s with
    | some o => (st.upd d (some ⟨o.val, copyTemp clone o.temp⟩), .ok)
    | none => (st, .noState)
  | .moveConstruct s d | .moveAssign s d => match st s with
    | some o => if s = d then (st, .ok) else ((st.upd d (some o)).upd s none, .ok)
    | none => (st, .noState)

def hRun (clone : Bool) (kind : TempKind) (fresh : σ) (solveF : σ → σ × ρ) :
    HStore σ → List (HOp σ) → HStore σ × List (HOut ρ)
  | st, [] => (st, [])
  | st, op :: ops =>
    let (st', o) := hStep clone kind fresh solveF st op
    let (st'', os) := hRun clone kind fresh solveF st' ops
    (st'', o :: os)

/-- the abstract specification: a store of independent plain values (no `temp` at all) -/
def specStep (fresh : σ) (solveF : σ → σ × ρ) (st : Nat → Option σ) : HOp σ → (Nat → Option σ) × HOut ρ
  | .new d => ((fun j => if j = d then some fresh else st j), .ok)
  | .set s f => match st s with
    | some v => ((fun j => if j = s then some (f v) else st j), .ok)
    | none => (st, .noState)
  | .badSet s code => match st s with
    | some _ => (st, .err code)
    | none => (st, .noState)
  | .solve s => match st s with
    | some v => let (v', r) := solveF v; ((fun j => if j = s then some v' else st j), .result r)
    | none => (st, .noState)
  | .copyConstruct s d | .copyAssign s d => match st s with
    | some v => ((fun j => if j = d then some v else st j), .ok)
    | none => (st, .noState)
  | .moveConstruct s d | .moveAssign s d => match st s with
    | some v => if s = d then (st, .ok) else ((fun j => if j = s then none else if j = d then some v else st j), .ok)
    | none => (st, .noState)

end Micm
