/-
Carrier-independent vocabulary of the rate-constant formulas: the environmental conditions of a grid cell and
the transcendental primitives the formulas use (shared by the generated formulas `Micm/Gen/RateFormulas.lean`
and by `Micm/Model/RateConst.lean`).
-/
import Micm.Model.Rosenbrock
namespace Micm

structure Conditions (α : Type) where
  temperature : α
  pressure : α
  airDensity : α
  deriving Inhabited

/-- transcendental primitives used by the formulas -/
structure TOps (α : Type) where
  exp : α → α
  pow : α → α → α
  log10 : α → α
  sqrt : α → α
  ofInt : Int → α
  lit : Float → α      -- numeric literals of the source (exact doubles)

end Micm
