/-
L1 model of `BackwardEuler::Solve` and `IsConverged` (backward_euler.inl).  The outer `while`
and the inner `do … while` are flattened: one loop iteration = one Newton iteration.
-/
import Micm.Model.Rosenbrock
namespace Micm

structure BEParams (α : Type) where
  small : α
  hstart : α
  maxSteps : Nat
  reductions : List α
  deriving Inhabited

structure BEIter (α : Type) where
  h : α
  matrix : Mat α
  deriving Inhabited

structure BEState (α : Type) where
  Yn1 : Mat α
  Yn : Mat α
  t : α
  h : α
  nSucc : Nat
  nFail : Nat
  iterations : Nat        -- Newton iterations done in the current outer iteration
  stats : Stats
  status : Status
  done : Bool
  sc : Scratch α
  trace : List (BEIter α)
  deriving Inhabited

section
variable {α : Type} [OfNat α 0] [OfNat α 1] [OfNat α 2] [Add α] [Sub α] [Mul α] [Div α]

/-- `IsConverged`: no element with |r| > small ∧ |r| > atol ∧ |r| > rtol·|y| (order-independent) -/
def beIsConverged (o : Ops α) (small : α) (atol : Array α) (rtol : α) (res yn1 : Mat α) : Bool :=
  (List.range res.size).all fun c =>
    let rr := res.getD c #[]
    let yr := yn1.getD c #[]
    (List.range rr.size).all fun v =>
      let a := o.abs (rd rr v)
      o.isFinite (rd rr v) && o.isFinite (rd yr v) &&
      !(o.lt small a && o.lt (rd atol v) a && o.lt (rtol * o.abs (rd yr v)) a)

/-- `AddToDiagonal(1/H)` on logical cells -/
def addDiag (diag : List Nat) (J : Mat α) (v : α) : Mat α :=
  J.map fun Jr => diag.foldl (fun Jr i => wr Jr i (rd Jr i + v)) Jr

def beStep (o : Ops α) (s : SolverCfg α) (p : BEParams α) (kc : Mat α) (atol : Array α) (rtol : α)
    (timeStep : α) (r : BEState α) : BEState α :=
  -- outer loop head
  let r := if r.iterations = 0 then
      (if o.lt r.t timeStep then { r with status := .running } else { r with done := true })
    else r
  if r.done then r else
  -- one Newton iteration
  let st := { r.stats with numberOfSteps := r.stats.numberOfSteps + 1 }
  let forcing := s.forcing kc r.Yn1 (fillM r.sc.f0 0)
  let jac := s.jacobian kc r.Yn1 (fillM r.sc.jac 0)
  let jacShift := addDiag s.diag jac (1 / r.h)
  let (jac, lo, up) := s.factor jacShift r.sc.lower r.sc.upper
  let res := forcing.mapIdx fun c fr => fr.mapIdx fun v f =>
    f - (rd (r.Yn1.getD c #[]) v - rd (r.Yn.getD c #[]) v) / r.h
  let res := s.linSolve jac lo up res
  let yn1 := r.Yn1.mapIdx fun c yr => yr.mapIdx fun v y => cmax o (y + rd (res.getD c #[]) v) 0
  let st := { st with functionCalls := st.functionCalls + 1, jacobianUpdates := st.jacobianUpdates + 1,
                      decompositions := st.decompositions + 1, solves := st.solves + 1 }
  let sc := { r.sc with f0 := res, jac := jac, lower := lo, upper := up }
  let it := r.iterations + 1
  let tr := { h := r.h, matrix := jacShift : BEIter α } :: r.trace
  let converged := if r.iterations = 0 then false else beIsConverged o p.small atol rtol res yn1
  let r := { r with Yn1 := yn1, stats := st, sc, iterations := it, trace := tr }
  if !converged && it < p.maxSteps then r
  else
    -- end of the do-while: outer loop tail
    let r := { r with iterations := 0 }
    if !converged then
      let st := { r.stats with rejected := r.stats.rejected + 1 }
      if r.nFail ≥ p.reductions.length then
        { r with stats := st, nSucc := 0, t := r.t + r.h, status := .acceptingUnconvergedIntegration, done := true }
      else
        let h := r.h * p.reductions.getD r.nFail 1
        let r := { r with stats := st, nSucc := 0, Yn1 := r.Yn, h, nFail := r.nFail + 1 }
        { r with h := cmin o r.h (timeStep - r.t) }
    else
      let st := { r.stats with accepted := r.stats.accepted + 1 }
      let t := r.t + r.h
      let nS := r.nSucc + 1
      let (nS, h) : Nat × α := if nS ≥ 2 then (0, r.h * 2) else (nS, r.h)
      { r with stats := st, status := .converged, t, Yn := r.Yn1, nSucc := nS, h := cmin o h (timeStep - t) }

def beLoop (o : Ops α) (s : SolverCfg α) (p : BEParams α) (kc : Mat α) (atol : Array α) (rtol : α)
    (timeStep : α) : Nat → BEState α → BEState α
  | 0, r => if r.done then r else { r with status := .outOfFuel }
  | fuel + 1, r => if r.done then r else beLoop o s p kc atol rtol timeStep fuel (beStep o s p kc atol rtol timeStep r)

/-- `BackwardEuler::Solve`; scratch `ynew` plays `Yn_`, `f0` plays `forcing_` -/
def beSolve (o : Ops α) (s : SolverCfg α) (p : BEParams α) (kc : Mat α) (atol : Array α) (rtol : α)
    (timeStep : α) (Y : Mat α) (sc : Scratch α) (fuel : Nat) : SolveResult α :=
  let h := if o.eq p.hstart 0 then timeStep else cmin o p.hstart timeStep   -- std::min(h_start_, time_step)
  let r0 : BEState α := { Yn1 := Y, Yn := Y, t := 0, h, nSucc := 0, nFail := 0, iterations := 0, stats := {},
                          status := .notYetCalled, done := false, sc, trace := [] }
  let r := beLoop o s p kc atol rtol timeStep fuel r0
  { status := r.status, finalTime := r.t, stats := r.stats, Y := r.Yn1, sc := { r.sc with ynew := r.Yn },
    trace := r.trace.reverse.map fun it => { h := it.h, alpha := 1 / it.h, matrix := it.matrix, error := 0, accepted := true } }

end
end Micm
