/-
L1 model of the *flat-storage* Jacobian, Doolittle-LU and linear-solve kernels, loop for loop as in
process_set.hpp, lu_decomposition_doolittle.inl and linear_solver.inl, for both families of layouts:
standard (`L = 0`: one block / row after the other) and vector (`L ≥ 1`: groups of L lanes).
Table entries are element *ranks*; the C++ tables hold `rank` (standard) or `rank * L` (vector).
Which lanes a kernel processes is modelled as in the source: forcing/Jacobian/solve run all L lanes
of every group (padding included), the LU runs `min(L, blocks - g*L)` lanes.
-/
import Micm.Model.FlatKernels
import Micm.Model.LU
namespace Micm

section
variable {α : Type} [OfNat α 0] [OfNat α 1] [Add α] [Sub α] [Mul α] [Div α]

/-- lanes `0 … n-1` applied one after the other to one instruction -/
@[inline] def lanesDo {σ : Type} (n : Nat) (f : σ → Nat → σ) (s : σ) : σ := (List.range n).foldl f s

/-! ### SubtractJacobianTerms -/

/-- one `ProcessInfo` entry for one group; `offK offY offJ` are the group offsets, `L` the lane stride -/
def jacVecEntry (L : Nat) (K Y : Array α) (offK offY offJ : Nat) (pid : Nat) (deps : List Nat)
    (flatA : List Nat) (flatB : List (Nat × α)) (J : Array α) : Array α :=
  let d0 : Array α := ((List.range L).map fun l => rd K (offK + pid * L + l)).toArray
  let d := deps.foldl (fun d i => lanesDo L (fun d l => wr d l (rd d l * rd Y (offY + i * L + l))) d) d0
  let J := flatA.foldl (fun J f => lanesDo L (fun J l => wr J (offJ + f * L + l) (rd J (offJ + f * L + l) + rd d l)) J) J
  flatB.foldl (fun J p => lanesDo L (fun J l => wr J (offJ + p.1 * L + l) (rd J (offJ + p.1 * L + l) - p.2 * rd d l)) J) J

def jacVecGo (L : Nat) (K Y : Array α) (offK offY offJ : Nat) :
    List ProcessInfo → List Nat → List α → List Nat → Array α → Array α
  | info :: infos, jr, jy, flat, J =>
    let flatA := flat.take (info.nDep + 1)
    let flat' := flat.drop (info.nDep + 1)
    let J := jacVecEntry L K Y offK offY offJ info.pid (jr.take info.nDep) flatA ((flat'.take info.nProd).zip (jy.take info.nProd)) J
    jacVecGo L K Y offK offY offJ infos (jr.drop info.nDep) (jy.drop info.nProd) (flat'.drop info.nProd) J
  | [], _, _, _, J => J

/-- vector layout (`L ≥ 1`): groups `0 … ceil(nCells/L)-1`; `nnz` elements per block -/
def PSTables.subtractJacobianFlatVec (t : PSTables α) (flat : List Nat) (L nCells nRxn nSpecies nnz : Nat)
    (K Y J : Array α) : Array α :=
  (List.range ((nCells + L - 1) / L)).foldl (fun J g =>
    jacVecGo L K Y (g * (L * nRxn)) (g * (L * nSpecies)) (g * (L * nnz)) t.jInfo t.jReactIds t.jYields flat J) J

/-- standard layout: cell `c` uses rows `c` of K, Y and block `c` of J (the same entry program with one lane of stride 1) -/
def PSTables.subtractJacobianFlatRow (t : PSTables α) (flat : List Nat) (nCells nRxn nSpecies nnz : Nat)
    (K Y J : Array α) : Array α :=
  (List.range nCells).foldl (fun J c =>
    jacVecGo 1 K Y (c * nRxn) (c * nSpecies) (c * nnz) t.jInfo t.jReactIds t.jYields flat J) J

def PSTables.subtractJacobianFlat (t : PSTables α) (flat : List Nat) (L nCells nRxn nSpecies nnz : Nat)
    (K Y J : Array α) : Array α :=
  if L = 0 then t.subtractJacobianFlatRow flat nCells nRxn nSpecies nnz K Y J
  else t.subtractJacobianFlatVec flat L nCells nRxn nSpecies nnz K Y J

/-! ### LuDecompositionDoolittle::Decompose -/

/-- one group (or, with `L = 1`, one block): `nc` lanes; `offA offL offU` group offsets -/
def doolittleVecGroup (L nc : Nat) (rows : List DRow) (A : Array α) (offA offL offU : Nat)
    (LU : Array α × Array α) : Array α × Array α :=
  rows.foldl (fun (LU : Array α × Array α) r =>
    let U := r.u.foldl (fun U e =>
      let U := lanesDo nc (fun U l => wr U (offU + e.t * L + l) (match e.a with | some a => rd A (offA + a * L + l) | none => 0)) U
      e.pairs.foldl (fun U p => lanesDo nc (fun U l =>
        wr U (offU + e.t * L + l) (rd U (offU + e.t * L + l) - rd LU.1 (offL + p.1 * L + l) * rd U (offU + p.2 * L + l))) U) U) LU.2
    let Lo := lanesDo nc (fun Lo l => wr Lo (offL + r.lii * L + l) 1) LU.1
    let Lo := r.l.foldl (fun Lo e =>
      let Lo := lanesDo nc (fun Lo l => wr Lo (offL + e.t * L + l) (match e.a with | some a => rd A (offA + a * L + l) | none => 0)) Lo
      let Lo := e.pairs.foldl (fun Lo p => lanesDo nc (fun Lo l =>
        wr Lo (offL + e.t * L + l) (rd Lo (offL + e.t * L + l) - rd Lo (offL + p.1 * L + l) * rd U (offU + p.2 * L + l))) Lo) Lo
      lanesDo nc (fun Lo l => wr Lo (offL + e.t * L + l) (rd Lo (offL + e.t * L + l) / rd U (offU + r.uii * L + l))) Lo) Lo
    (Lo, U)) LU

/-- flat Doolittle decomposition; `nnzA nnzL nnzU` are the pattern sizes -/
def doolittleFlat (L blocks : Nat) (rows : List DRow) (nnzA nnzL nnzU : Nat) (A : Array α)
    (LU : Array α × Array α) : Array α × Array α :=
  if L = 0 then
    (List.range blocks).foldl (fun LU b => doolittleVecGroup 1 1 rows A (b * nnzA) (b * nnzL) (b * nnzU) LU) LU
  else
    (List.range ((blocks + L - 1) / L)).foldl (fun LU g =>
      doolittleVecGroup L (min L (blocks - g * L)) rows A (g * (L * nnzA)) (g * (L * nnzL)) (g * (L * nnzU)) LU) LU

/-! ### LinearSolver::Solve (separate L, U) -/

/-- one group: all `L` lanes; `x` is the dense right-hand side (cells x n), `offX` its group offset -/
def solveVecGroup (L n : Nat) (fw bw : List SubRow) (Lo Up : Array α) (offX offL offU : Nat) (x : Array α) : Array α :=
  let (x, _) := fw.foldl (fun (s : Array α × Nat) r =>
    let x := r.pairs.foldl (fun x p => lanesDo L (fun x l =>
      wr x (offX + s.2 * L + l) (rd x (offX + s.2 * L + l) - rd Lo (offL + p.1 * L + l) * rd x (offX + p.2 * L + l))) x) s.1
    (lanesDo L (fun x l => wr x (offX + s.2 * L + l) (rd x (offX + s.2 * L + l) / rd Lo (offL + r.diag * L + l))) x, s.2 + 1)) (x, 0)
  let (x, _) := bw.foldl (fun (s : Array α × Nat) r =>
    let x := r.pairs.foldl (fun x p => lanesDo L (fun x l =>
      wr x (offX + s.2 * L + l) (rd x (offX + s.2 * L + l) - rd Up (offU + p.1 * L + l) * rd x (offX + p.2 * L + l))) x) s.1
    (lanesDo L (fun x l => wr x (offX + s.2 * L + l) (rd x (offX + s.2 * L + l) / rd Up (offU + r.diag * L + l))) x,
     if s.2 = 0 then 0 else s.2 - 1)) (x, n - 1)
  x

def solveFlat (L nCells n : Nat) (fw bw : List SubRow) (nnzL nnzU : Nat) (Lo Up x : Array α) : Array α :=
  if L = 0 then
    (List.range nCells).foldl (fun x c => solveVecGroup 1 n fw bw Lo Up (c * n) (c * nnzL) (c * nnzU) x) x
  else
    (List.range ((nCells + L - 1) / L)).foldl (fun x g =>
      solveVecGroup L n fw bw Lo Up (g * (L * n)) (g * (L * nnzL)) (g * (L * nnzU)) x) x

end
end Micm
