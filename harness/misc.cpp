// Cases that do not depend on the layout configuration: builder (C14/C20), Markowitz, rate constants (C15).
#include "cases.hpp"

namespace vh
{
  static micm::Species speciesDecl(Tok& t)
  {
    std::string name = t.str();
    bool param = t.nat() != 0;
    bool has = t.nat() != 0;
    double v = t.flt();
    micm::Species s(name);
    if (param)
      s.SetThirdBody();
    if (has)
      s.SetProperty<double>("absolute tolerance", v);
    return s;
  }

  static micm::Species namedRef(Tok& t)
  {
    std::string name = t.str();
    bool param = t.nat() != 0;
    micm::Species s(name);
    if (param)
      s.SetThirdBody();
    return s;
  }

  static std::string buildCase(Tok& t)
  {
    std::size_t hasSys = t.nat();  // 0: never set, 1: set, 2: set to another system first (same builder)
    std::size_t hasRx = t.nat();  // 0: never set, 1: set, 2: set to a valid list and then to an empty one (same builder)
    bool ignoreUnused = t.nat(), reorder = t.nat();
    std::size_t ng = t.nat();
    std::vector<micm::Species> gas;
    for (std::size_t i = 0; i < ng; ++i)
      gas.push_back(speciesDecl(t));
    std::size_t nph = t.nat();
    std::unordered_map<std::string, micm::Phase> phases;
    for (std::size_t i = 0; i < nph; ++i)
    {
      std::string pname = t.str();
      std::string objname = t.str();  // the Phase object's own name_ ("-" = unnamed); the map key is what names the species
      std::size_t k = t.nat();
      std::vector<micm::Species> sp;
      for (std::size_t j = 0; j < k; ++j)
        sp.push_back(speciesDecl(t));
      phases[pname] = objname == "-" ? micm::Phase{ sp } : micm::Phase(objname, sp);
    }
    std::size_t nrx = t.nat();
    std::vector<micm::Process> procs;
    for (std::size_t r = 0; r < nrx; ++r)
    {
      std::size_t nr = t.nat();
      std::vector<micm::Species> reactants;
      for (std::size_t k = 0; k < nr; ++k)
        reactants.push_back(namedRef(t));
      std::size_t np = t.nat();
      std::vector<micm::Yield> products;
      for (std::size_t k = 0; k < np; ++k)
      {
        auto s = namedRef(t);
        double y = t.flt();
        products.push_back(micm::Yield(s, y));
      }
      procs.push_back(micm::Process::Create()
                          .SetReactants(reactants)
                          .SetProducts(products)
                          .SetRateConstant(micm::UserDefinedRateConstant({ .label_ = "r" + std::to_string(r) })));
    }
    using B = micm::CpuSolverBuilder<micm::RosenbrockSolverParameters>;
    B b(micm::RosenbrockSolverParameters::ThreeStageRosenbrockParameters());
    if (hasSys == 2)
    {
      // the builder held ANOTHER system before (same number of gas species, other names, every species with its own
      // tolerance, one extra phase): SetSystem then assigns the new system over it
      std::vector<micm::Species> other;
      for (std::size_t i = 0; i < gas.size(); ++i)
      {
        micm::Species s("zz" + std::to_string(i));
        s.SetProperty<double>("absolute tolerance", 0.5 + i);
        other.push_back(s);
      }
      std::unordered_map<std::string, micm::Phase> otherPhases;
      otherPhases["solid"] = micm::Phase{ std::vector<micm::Species>{ micm::Species("q") } };
      b.SetSystem(micm::System(micm::SystemParameters{ .gas_phase_ = micm::Phase{ other }, .phases_ = otherPhases }));
    }
    if (hasSys)
      b.SetSystem(micm::System(micm::SystemParameters{ .gas_phase_ = micm::Phase{ gas }, .phases_ = phases }));
    if (hasRx)
      b.SetReactions(procs);
    if (hasRx == 2)
      b.SetReactions({});
    b.SetIgnoreUnusedSpecies(ignoreUnused).SetReorderState(reorder);
    auto solver = b.Build();
    auto state = solver.GetState();
    Out o;
    o.os << "build";
    o.key("map");
    for (auto& kv : state.variable_map_)
      o.s(kv.first + ":" + std::to_string(kv.second));
    o.key("names");
    for (auto& n : state.variable_names_)
      o.s(n);
    o.key("atol");
    for (auto v : state.absolute_tolerance_)
      o.d(v);
    return o.os.str();
  }

  static std::string markowitzCase(Tok& t)
  {
    std::size_t n = t.nat();
    micm::Matrix<int> m(n, n, 0);
    for (std::size_t i = 0; i < n; ++i)
      for (std::size_t j = 0; j < n; ++j)
        m[i][j] = (int)t.nat();
    auto perm = micm::DiagonalMarkowitzReorder<micm::Matrix<int>>(m);
    Out o;
    o.os << "markowitz";
    o.key("perm");
    for (auto p : perm)
      o.n(p);
    return o.os.str();
  }

  static Reg r1("build", buildCase);
  static Reg r2("markowitz", markowitzCase);
}  // namespace vh

namespace vh
{
  static std::string rosparamsCase(Tok& t)
  {
    std::size_t which = t.nat();
    micm::RosenbrockSolverParameters p = micm::RosenbrockSolverParameters::ThreeStageRosenbrockParameters();
    switch (which)
    {
      case 0: p = micm::RosenbrockSolverParameters::TwoStageRosenbrockParameters(); break;
      case 1: p = micm::RosenbrockSolverParameters::ThreeStageRosenbrockParameters(); break;
      case 2: p = micm::RosenbrockSolverParameters::FourStageRosenbrockParameters(); break;
      case 3: p = micm::RosenbrockSolverParameters::FourStageDifferentialAlgebraicRosenbrockParameters(); break;
      default: p = micm::RosenbrockSolverParameters::SixStageDifferentialAlgebraicRosenbrockParameters(); break;
    }
    Out o;
    o.os << "rosparams stages=" << p.stages_ << " maxsteps=" << p.max_number_of_steps_;
    o.key("a");
    for (auto v : p.a_) o.d(v);
    o.key("c");
    for (auto v : p.c_) o.d(v);
    o.key("m");
    for (auto v : p.m_) o.d(v);
    o.key("e");
    for (auto v : p.e_) o.d(v);
    o.key("alpha");
    for (auto v : p.alpha_) o.d(v);
    o.key("gamma");
    for (auto v : p.gamma_) o.d(v);
    o.key("newf");
    for (auto v : p.new_function_evaluation_) o.n(v ? 1 : 0);
    o.key("scal");
    o.d(p.estimator_of_local_order_);
    o.d(p.round_off_);
    o.d(p.factor_min_);
    o.d(p.factor_max_);
    o.d(p.rejection_factor_decrease_);
    o.d(p.safety_factor_);
    o.d(p.h_min_);
    o.d(p.h_max_);
    o.d(p.h_start_);
    micm::BackwardEulerSolverParameters b;
    o.key("be");
    o.d(b.small_);
    o.d(b.h_start_);
    o.d((double)b.max_number_of_steps_);
    for (auto v : b.time_step_reductions_) o.d(v);
    return o.os.str();
  }
  static Reg r3("rosparams", rosparamsCase);
}  // namespace vh

namespace vh
{
  // documented error conditions outside the builder/State (C20)
  static std::string errCase(Tok& t)
  {
    std::string which = t.str();
    if (which == "surface")
    {
      std::size_t nr = t.nat();
      micm::Species sp("a");
      sp.SetProperty<double>(micm::property_keys::GAS_DIFFUSION_COEFFICIENT, 1e-5);
      sp.SetProperty<double>(micm::property_keys::MOLECULAR_WEIGHT, 0.05);
      // optional: a bit mask saying which of the reactants are parameterized species (third bodies); the documented
      // error counts REACTANTS, whatever their kind
      std::size_t tbmask = t.nat();   // absent tokens read as 0
      bool viaCtor = t.nat() != 0;
      std::vector<micm::Species> reactants;
      for (std::size_t i = 0; i < nr; ++i)
      {
        micm::Species r("r" + std::to_string(i));
        if ((tbmask >> i) & 1)
          r.SetThirdBody();
        reactants.push_back(r);
      }
      micm::Process p = viaCtor ? micm::Process(reactants, {}, std::make_unique<micm::SurfaceRateConstant>(micm::SurfaceRateConstantParameters{ .label_ = "s", .species_ = sp }), micm::Phase())
                                : micm::Process(micm::Process::Create().SetReactants(reactants).SetProducts({}).SetRateConstant(
                                      micm::SurfaceRateConstant({ .label_ = "s", .species_ = sp })));
      return "errc ok reactants=" + std::to_string(p.reactants_.size());
    }
    if (which == "property")
    {
      std::size_t kind = t.nat();  // 0 double present, 1 double missing, 2 string missing, 3 bool missing, 4 int missing, 5 unsupported type
      micm::Species sp("a", { { "molecular weight [kg mol-1]", 0.05 } });
      switch (kind)
      {
        case 0: return "errc ok " + hexd(sp.GetProperty<double>("molecular weight [kg mol-1]"));
        case 1: sp.GetProperty<double>("nosuch"); break;
        case 2: sp.GetProperty<std::string>("nosuch"); break;
        case 3: sp.GetProperty<bool>("nosuch"); break;
        case 4: sp.GetProperty<int>("nosuch"); break;
        case 5: sp.GetProperty<float>("molecular weight [kg mol-1]"); break;
        // the key exists, but under ANOTHER value type: for the type asked for it is missing
        case 6: sp.SetProperty<int>("count", 3); sp.GetProperty<double>("count"); break;
        case 7: sp.GetProperty<std::string>("molecular weight [kg mol-1]"); break;
        case 8: sp.SetProperty<std::string>("tag", "x"); sp.GetProperty<int>("tag"); break;
        case 9: sp.SetProperty<bool>("flag", true); sp.GetProperty<double>("flag"); break;
        case 10: sp.SetProperty<double>("w", 1.5); sp.GetProperty<bool>("w"); break;
        default: sp.GetProperty<float>("molecular weight [kg mol-1]"); break;
      }
      return "errc ok";
    }
    if (which == "ragged")
    {
      std::size_t L = t.nat();
      std::size_t rows = t.nat();
      std::vector<std::vector<double>> v;
      for (std::size_t i = 0; i < rows; ++i)
        v.push_back(std::vector<double>(t.nat(), 1.0));
      std::size_t r = 0, c = 0;
      if (L == 0)
      {
        micm::Matrix<double> m(v);
        r = m.NumRows();
        c = m.NumColumns();
      }
      else
      {
        micm::VectorMatrix<double, 3> m(v);
        r = m.NumRows();
        c = m.NumColumns();
      }
      return "errc ok " + std::to_string(r) + "x" + std::to_string(c);
    }
    if (which == "rowassign")
    {
      std::size_t L = t.nat();
      std::size_t cols = t.nat();
      std::size_t len = t.nat();
      std::vector<double> row(len, 2.0);
      if (L == 0)
      {
        micm::Matrix<double> m(2, cols, 0.0);
        m[1] = row;
      }
      else
      {
        micm::VectorMatrix<double, 3> m(4, cols, 0.0);
        m[3] = row;
      }
      return "errc ok";
    }
    if (which == "missingblock")
    {
      std::size_t blocks = t.nat();
      auto b = micm::SparseMatrix<double>::Create(2).SetNumberOfBlocks(blocks).WithElement(0, 0).WithElement(1, 1);
      micm::SparseMatrix<double> m(b);
      return "errc ok " + std::to_string(m.VectorIndex(1, 1));
    }
    if (which == "builderelem")
    {
      std::size_t n = t.nat(), x = t.nat(), y = t.nat();
      auto b = micm::SparseMatrix<double>::Create(n).WithElement(x, y);
      return "errc ok " + std::to_string(b.NumberOfElements());
    }
    return "bad-op";
  }
  static Reg r4("errc", errCase);
}  // namespace vh
