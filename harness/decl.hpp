// Declarations of the per-configuration case runners (defined in cases.hpp, instantiated one
// configuration per translation unit so the build parallelises).
#pragma once
#include <cstddef>
#include <string>

namespace vh
{
  struct Tok;

  /// kernels that depend on (dense L, sparse storage order)
  template<std::size_t L, bool CSC>
  struct KernelCfg
  {
    static std::string sparse(Tok& t, std::size_t n, std::size_t blocks);
    static std::string jacobian(Tok& t, std::size_t ncell, std::size_t ns);
    static std::string jacobianmix(Tok& t, std::size_t ncell, std::size_t ns);
    static std::string lu(Tok& t, std::size_t kind, std::size_t n, std::size_t blocks);
    static std::string jacobianflat(Tok& t, std::size_t ncell, std::size_t ns);
    static std::string luflat(Tok& t, std::size_t kind, std::size_t n, std::size_t blocks);
    static std::string alphaflat(Tok& t, std::size_t n, std::size_t blocks);
    static std::string lumix(Tok& t, std::size_t kind, std::size_t n, std::size_t cscL, std::size_t cscU, std::size_t blocks);
  };

  template<std::size_t L>
  struct DenseCfg
  {
    static std::string dense(Tok& t, std::size_t rows, std::size_t cols);
    static std::string forcing(Tok& t, std::size_t ncell, std::size_t ns);
    static std::string forcingflat(Tok& t, std::size_t ncell, std::size_t ns);
    static std::string norm(Tok& t, std::size_t ncell, std::size_t ns);
    static std::string rates(Tok& t, std::size_t ncell, std::size_t nproc, bool reuse = false, bool positional = false);
    static std::string cpassign(Tok& t, std::size_t ns, std::size_t ncell);
  };

  /// whole-solver cases: (dense L, storage order, LU kind)
  template<std::size_t L, bool CSC, std::size_t KIND>
  struct SolveCfg
  {
    static std::string solve(Tok& t, std::size_t integ);
    static std::string hist(Tok& t, std::size_t integ);
  };
}  // namespace vh
