// Definitions of the case runners: each calls the real micm templates in-process and prints the
// canonical result line (same format as the Lean driver).
#pragma once
#include "common.hpp"
#include "decl.hpp"

namespace vh
{
  using PairSet = std::set<std::pair<std::size_t, std::size_t>>;

  inline PairSet readPairs(Tok& t, std::size_t ne)
  {
    PairSet s;
    for (std::size_t i = 0; i < ne; ++i)
    {
      auto a = t.nat();
      auto b = t.nat();
      s.insert({ a, b });
    }
    return s;
  }

  template<class SM>
  SM makeSparse(std::size_t n, std::size_t blocks, const PairSet& es, double init)
  {
    auto b = SM::Create(n).SetNumberOfBlocks(blocks).InitialValue(init);
    for (auto& e : es)
      b = b.WithElement(e.first, e.second);
    return SM(b);
  }

  template<class SM>
  PairSet patternOf(const SM& m)
  {
    PairSet s;
    for (std::size_t r = 0; r < m.NumRows(); ++r)
      for (std::size_t c = 0; c < m.NumColumns(); ++c)
        if (!m.IsZero(r, c))
          s.insert({ r, c });
    return s;
  }

  template<std::size_t L>
  constexpr std::size_t rankDiv()
  {
    return L == 0 ? 1 : L;
  }

  // ---------------------------------------------------------------- sparse container probe
  template<std::size_t L, bool CSC>
  std::string KernelCfg<L, CSC>::sparse(Tok& t, std::size_t n, std::size_t blocks)
  {
    using SM = SparseOf<L, CSC>;
    std::size_t ne = t.nat();
    auto es = readPairs(t, ne);
    SM m;
    if (t.str() == "prev")
    {
      // history: a live matrix with another pattern is assigned from a builder (`matrix = builder`)
      std::size_t n0 = t.nat(), blocks0 = t.nat();
      std::size_t ne0 = t.nat();
      auto es0 = readPairs(t, ne0);
      m = makeSparse<SM>(n0, blocks0, es0, 1.0);
      auto b = SM::Create(n).SetNumberOfBlocks(blocks).InitialValue(0.0);
      for (auto& e : es)
        b = b.WithElement(e.first, e.second);
      m = b;
    }
    else
      m = makeSparse<SM>(n, blocks, es, 0.0);
    Out o;
    o.os << "sparse size=" << m.AsVector().size();
    o.key("idx");
    for (std::size_t b = 0; b <= blocks; ++b)
      for (std::size_t r = 0; r <= n; ++r)
        for (std::size_t c = 0; c <= n; ++c)
        {
          try
          {
            o.n(m.VectorIndex(b, r, c));
          }
          catch (const std::system_error& e)
          {
            o.s("E" + std::to_string(e.code().value()));
          }
        }
    o.key("zero");
    for (std::size_t r = 0; r <= n; ++r)
      for (std::size_t c = 0; c <= n; ++c)
      {
        try
        {
          o.s(m.IsZero(r, c) ? "1" : "0");
        }
        catch (const std::system_error& e)
        {
          o.s("E" + std::to_string(e.code().value()));
        }
      }
    o.key("diag");
    for (auto i : m.DiagonalIndices(0))
      o.n(i);
    o.key("addd");
    auto& v = m.AsVector();
    for (std::size_t i = 0; i < v.size(); ++i)
      v[i] = (double)i;
    m.AddToDiagonal(0.5);
    for (std::size_t i = 0; i < v.size(); ++i)
      if (v[i] != (double)i)
        o.n(i);
    return o.os.str();
  }

  // ---------------------------------------------------------------- dense container probe
  template<std::size_t L>
  std::string DenseCfg<L>::dense(Tok& t, std::size_t rows, std::size_t cols)
  {
    using DM = typename DenseOf<L>::type;
    DM m(rows, cols, 0.0);
    Out o;
    o.os << "dense size=" << m.AsVector().size();
    o.key("addr");
    for (std::size_t x = 0; x < rows; ++x)
      for (std::size_t y = 0; y < cols; ++y)
        o.n(&m[x][y] - m.AsVector().data());
    auto& v = m.AsVector();
    for (std::size_t i = 0; i < v.size(); ++i)
      v[i] = (double)(i + 1);
    o.key("ext");
    for (std::size_t x = 0; x < rows; ++x)
    {
      std::vector<double> row = m[x];
      for (auto e : row)
        o.d(e);
    }
    // ... and the same through a const reference (ConstProxy)
    o.key("cext");
    {
      const DM& cm = m;
      for (std::size_t x = 0; x < rows; ++x)
      {
        std::vector<double> row = cm[x];
        for (auto e : row)
          o.d(e);
      }
    }
    o.key("axpy");
    DM y(rows, cols, 1.0);
    y.Axpy(2.0, m);
    for (std::size_t i = 0; i < y.AsVector().size(); ++i)
      if (y.AsVector()[i] != 1.0)
        o.n(i);
    o.key("asg");
    for (std::size_t x = 0; x < rows; ++x)
    {
      std::vector<double> row(cols);
      for (std::size_t c = 0; c < cols; ++c)
        row[c] = (double)(1000 * (x + 1) + c);
      m[x] = row;
    }
    for (auto e : m.AsVector())
      o.d(e);
    // row assignment from a LONGER vector (legal: the surplus is ignored), last row first so that a stray write into a
    // later row would stay visible
    o.key("asgx");
    {
      DM mx(rows, cols, 0.0);
      for (std::size_t x = rows; x-- > 0;)
      {
        std::vector<double> row(cols + 1 + x % 2);
        for (std::size_t c = 0; c < row.size(); ++c)
          row[c] = c < cols ? (double)(1000 * (x + 1) + c) : (double)(7000000 + 10 * x + c);
        mx[x] = row;
      }
      for (auto e : mx.AsVector())
        o.d(e);
    }
    // Max / Min with a threshold in the middle of index-coded data
    {
      DM a(rows, cols, 0.0), b2(rows, cols, 0.0);
      auto& va = a.AsVector();
      auto& vb = b2.AsVector();
      // scattered values: about half of the slots of every group lie on each side of the threshold
      auto val = [&](std::size_t i) { return (double)((i * 7919) % (va.size() + 1) + 1); };
      for (std::size_t i = 0; i < va.size(); ++i)
        va[i] = vb[i] = val(i);
      double thr = va.size() / 2 + 0.5;
      a.Max(thr);
      b2.Min(thr);
      o.key("max");
      for (std::size_t i = 0; i < va.size(); ++i)
        if (va[i] != val(i))
          o.n(i);
      o.key("min");
      for (std::size_t i = 0; i < vb.size(); ++i)
        if (vb[i] != val(i))
          o.n(i);
      // ForEach (two / three operands), Fill, Copy, Swap on index-coded data
      DM idx(rows, cols, 0.0), vals(rows, cols, 0.0);
      for (std::size_t i = 0; i < idx.AsVector().size(); ++i)
      {
        idx.AsVector()[i] = (double)(i + 1);
        vals.AsVector()[i] = val(i);
      }
      {
        DM t2 = idx;
        t2.ForEach([](double& tt, const double& aa) { tt = tt * 3.0 + aa; }, vals);
        o.key("fe2");
        for (auto e : t2.AsVector())
          o.d(e);
        DM t3 = idx;
        t3.ForEach([](double& tt, const double& aa, const double& bb) { tt = tt + aa * bb; }, vals, idx);
        o.key("fe3");
        for (auto e : t3.AsVector())
          o.d(e);
        DM f = idx;
        f.Fill(7.5);
        o.key("fill");
        for (auto e : f.AsVector())
          o.d(e);
        DM f2 = idx;
        f2 = 7.5;
        if (f2.AsVector() != f.AsVector())
          o.os << " assign_scalar_differs_from_fill";
      }
      {
        // `other` has the same storage size when that size is even, one more row's worth of mismatch otherwise
        std::size_t n = idx.AsVector().size();
        bool mismatch = n % 2 == 1;
        DM other = mismatch ? DM(1, n + 1, 2.5) : DM(rows, cols, 2.5);
        if (!mismatch)
          for (auto& e : other.AsVector())
            e = 2.5;
        o.key("copy");
        try
        {
          DM c = idx;
          c.Copy(other);
          for (auto e : c.AsVector())
            o.d(e);
        }
        catch (const std::runtime_error&)
        {
          o.os << "runtime_error";
        }
        o.key("swap");
        try
        {
          DM c = idx;
          DM o2 = other;
          c.Swap(o2);
          for (auto e : c.AsVector())
            o.d(e);
          for (auto e : o2.AsVector())
            o.d(e);
        }
        catch (const std::runtime_error&)
        {
          o.os << "runtime_error";
        }
      }
    }
    return o.os.str();
  }

  // ---------------------------------------------------------------- forcing
  struct PSpy : micm::ProcessSet
  {
    using micm::ProcessSet::ProcessSet;
    template<class M>
    static const M& get(const micm::ProcessSet& p, M micm::ProcessSet::*m)
    {
      return p.*m;
    }
    static auto nReact()
    {
      return &PSpy::number_of_reactants_;
    }
    static auto reactIds()
    {
      return &PSpy::reactant_ids_;
    }
    static auto nProd()
    {
      return &PSpy::number_of_products_;
    }
    static auto prodIds()
    {
      return &PSpy::product_ids_;
    }
    static auto flatIds()
    {
      return &PSpy::jacobian_flat_ids_;
    }
    static auto info()
    {
      return &PSpy::jacobian_process_info_;
    }
    struct Info
    {
      std::size_t pid, ind, ndep, nprod;
    };
    static std::vector<Info> infos(const micm::ProcessSet& p)
    {
      std::vector<Info> r;
      for (auto& i : p.*(&PSpy::jacobian_process_info_))
        r.push_back({ i.process_id_, i.independent_id_, i.number_of_dependent_reactants_, i.number_of_products_ });
      return r;
    }
  };

  template<class DM>
  DM denseFrom(std::size_t rows, std::size_t cols, const std::vector<double>& v)
  {
    DM m(rows, cols, 0.0);
    for (std::size_t r = 0; r < rows; ++r)
      for (std::size_t c = 0; c < cols; ++c)
        m[r][c] = v[r * cols + c];
    return m;
  }

  template<class DM>
  void printDense(Out& o, const DM& m)
  {
    for (std::size_t r = 0; r < m.NumRows(); ++r)
      for (std::size_t c = 0; c < m.NumColumns(); ++c)
        o.d(m[r][c]);
  }

  template<std::size_t L>
  std::string DenseCfg<L>::forcing(Tok& t, std::size_t ncell, std::size_t ns)
  {
    using DM = typename DenseOf<L>::type;
    auto perm = t.nats(ns);
    auto procs = mech(t);
    std::size_t nrx = procs.size();
    auto k = t.flts(ncell * nrx);
    auto y = t.flts(ncell * ns);
    auto f0 = t.flts(ncell * ns);
    micm::ProcessSet ps(procs, nameMap(perm));
    DM K = denseFrom<DM>(ncell, nrx, k), Y = denseFrom<DM>(ncell, ns, y), F = denseFrom<DM>(ncell, ns, f0);
    ps.AddForcingTerms<DM>(K, Y, F);
    Out o;
    o.os << "forcing";
    o.key("nr");
    for (auto x : ps.*PSpy::nReact())
      o.n(x);
    o.key("rid");
    for (auto x : ps.*PSpy::reactIds())
      o.n(x);
    o.key("np");
    for (auto x : ps.*PSpy::nProd())
      o.n(x);
    o.key("pid");
    for (auto x : ps.*PSpy::prodIds())
      o.n(x);
    o.key("f");
    printDense(o, F);
    return o.os.str();
  }

  template<std::size_t L>
  std::string DenseCfg<L>::forcingflat(Tok& t, std::size_t ncell, std::size_t ns)
  {
    using DM = typename DenseOf<L>::type;
    auto perm = t.nats(ns);
    auto procs = mech(t);
    std::size_t nrx = procs.size();
    auto k = t.flts(ncell * nrx);
    auto y = t.flts(ncell * ns);
    auto f0 = t.flts(ncell * ns);
    micm::ProcessSet ps(procs, nameMap(perm));
    DM K = denseFrom<DM>(ncell, nrx, k), Y = denseFrom<DM>(ncell, ns, y), F = denseFrom<DM>(ncell, ns, f0);
    ps.AddForcingTerms<DM>(K, Y, F);
    Out o;
    o.os << "forcingflat";
    o.key("f");
    for (auto v : F.AsVector())
      o.d(v);
    return o.os.str();
  }

  // ---------------------------------------------------------------- jacobian
  template<std::size_t L, std::size_t LS, bool CSC>
  std::string jacobianImpl(Tok& t, std::size_t ncell, std::size_t ns);

  template<std::size_t L, bool CSC>
  std::string KernelCfg<L, CSC>::jacobian(Tok& t, std::size_t ncell, std::size_t ns)
  {
    return jacobianImpl<L, L, CSC>(t, ncell, ns);
  }

  /// the mixed configuration the library supports on purpose (the scalar kernel is selected): dense data in a
  /// VectorMatrix<L>, Jacobian in a STANDARD-ordered sparse matrix (this is what CpuSolverBuilder<Params,
  /// VectorMatrix<double, L>> gives by default)
  template<std::size_t L, bool CSC>
  std::string KernelCfg<L, CSC>::jacobianmix(Tok& t, std::size_t ncell, std::size_t ns)
  {
    return jacobianImpl<L, 0, CSC>(t, ncell, ns);
  }

  template<std::size_t L, std::size_t LS, bool CSC>
  std::string jacobianImpl(Tok& t, std::size_t ncell, std::size_t ns)
  {
    using DM = typename DenseOf<L>::type;
    using SM = SparseOf<LS, CSC>;
    auto perm = t.nats(ns);
    auto procs = mech(t);
    std::size_t nrx = procs.size();
    auto k = t.flts(ncell * nrx);
    auto y = t.flts(ncell * ns);
    micm::ProcessSet ps(procs, nameMap(perm));
    auto nz = ps.NonZeroJacobianElements();
    SM J = micm::BuildJacobian<SM>(nz, ncell, ns);
    {
      // the same ProcessSet was pointed at a Jacobian of ANOTHER layout before (the other storage order, one block
      // more): re-targeting must discard everything the first call left behind
      using SMother = SparseOf<LS, !CSC>;
      SMother Jother = micm::BuildJacobian<SMother>(nz, ncell + 1, ns);
      ps.SetJacobianFlatIds(Jother);
    }
    ps.SetJacobianFlatIds(J);
    DM K = denseFrom<DM>(ncell, nrx, k), Y = denseFrom<DM>(ncell, ns, y);
    J.Fill(0.0);
    ps.SubtractJacobianTerms<DM, SM>(K, Y, J);
    Out o;
    o.os << "jacobian";
    o.key("nz");
    for (auto& e : nz)
      o.p(e.first, e.second);
    o.key("info");
    for (auto& i : PSpy::infos(ps))
    {
      o.sep();
      o.os << i.pid << ',' << i.ind << ',' << i.ndep << ',' << i.nprod;
    }
    o.key("flat");
    for (auto x : ps.*PSpy::flatIds())
      o.n(x / rankDiv<LS>());
    o.key("J");
    auto pat = patternOf(J);
    for (std::size_t b = 0; b < ncell; ++b)
      for (auto& e : pat)
        o.d(J[b][e.first][e.second]);
    return o.os.str();
  }

  // ---------------------------------------------------------------- LU + linear solve
  template<class LU>
  struct LuSpy;

  template<>
  struct LuSpy<micm::LuDecompositionDoolittle> : micm::LuDecompositionDoolittle
  {
    template<std::size_t D>
    static void print(Out& o, const micm::LuDecompositionDoolittle& x)
    {
      using S = LuSpy;
      o.key("niLU");
      for (auto& p : x.*(&S::niLU_))
        o.p(p.first, p.second);
      o.key("doAik");
      for (auto b : x.*(&S::do_aik_))
        o.n(b ? 1 : 0);
      o.key("aik");
      for (auto v : x.*(&S::aik_))
        o.n(v / D);
      o.key("uikNkj");
      for (auto& p : x.*(&S::uik_nkj_))
        o.p(p.first / D, p.second);
      o.key("lijUjk");
      for (auto& p : x.*(&S::lij_ujk_))
        o.p(p.first / D, p.second / D);
      o.key("doAki");
      for (auto b : x.*(&S::do_aki_))
        o.n(b ? 1 : 0);
      o.key("aki");
      for (auto v : x.*(&S::aki_))
        o.n(v / D);
      o.key("lkiNkj");
      for (auto& p : x.*(&S::lki_nkj_))
        o.p(p.first / D, p.second);
      o.key("lkjUji");
      for (auto& p : x.*(&S::lkj_uji_))
        o.p(p.first / D, p.second / D);
      o.key("uii");
      for (auto v : x.*(&S::uii_))
        o.n(v / D);
    }
  };

  template<>
  struct LuSpy<micm::LuDecompositionMozart> : micm::LuDecompositionMozart
  {
    template<std::size_t D>
    static void print(Out& o, const micm::LuDecompositionMozart& x)
    {
      using S = LuSpy;
      o.key("t1");
      for (auto& p : x.*(&S::lii_nuji_nlji_))
        o.t3(std::get<0>(p) / D, std::get<1>(p), std::get<2>(p));
      o.key("ujiAji");
      for (auto& p : x.*(&S::uji_aji_))
        o.p(p.first / D, p.second / D);
      o.key("ljiAji");
      for (auto& p : x.*(&S::lji_aji_))
        o.p(p.first / D, p.second / D);
      o.key("fillU");
      for (auto v : x.*(&S::fill_uji_))
        o.n(v / D);
      o.key("fillL");
      for (auto v : x.*(&S::fill_lji_))
        o.n(v / D);
      o.key("t2");
      for (auto& p : x.*(&S::uii_nj_nk_))
        o.t3(std::get<0>(p) / D, std::get<1>(p), std::get<2>(p));
      o.key("lji");
      for (auto v : x.*(&S::lji_))
        o.n(v / D);
      o.key("t3");
      for (auto& p : x.*(&S::nujk_nljk_uik_))
        o.t3(std::get<0>(p), std::get<1>(p), std::get<2>(p) / D);
      o.key("ujkLji");
      for (auto& p : x.*(&S::ujk_lji_))
        o.p(p.first / D, p.second / D);
      o.key("ljkLji");
      for (auto& p : x.*(&S::ljk_lji_))
        o.p(p.first / D, p.second / D);
    }
  };

  template<>
  struct LuSpy<micm::LuDecompositionDoolittleInPlace> : micm::LuDecompositionDoolittleInPlace
  {
    template<std::size_t D>
    static void print(Out& o, const micm::LuDecompositionDoolittleInPlace& x)
    {
      using S = LuSpy;
      o.key("t1");
      for (auto& p : x.*(&S::nik_nki_aii_))
        o.t3(std::get<0>(p), std::get<1>(p), std::get<2>(p) / D);
      o.key("aikNjk");
      for (auto& p : x.*(&S::aik_njk_))
        o.p(p.first / D, p.second);
      o.key("aijAjk");
      for (auto& p : x.*(&S::aij_ajk_))
        o.p(p.first / D, p.second / D);
      o.key("akiNji");
      for (auto& p : x.*(&S::aki_nji_))
        o.p(p.first / D, p.second);
      o.key("akjAji");
      for (auto& p : x.*(&S::akj_aji_))
        o.p(p.first / D, p.second / D);
    }
  };

  template<>
  struct LuSpy<micm::LuDecompositionMozartInPlace> : micm::LuDecompositionMozartInPlace
  {
    template<std::size_t D>
    static void print(Out& o, const micm::LuDecompositionMozartInPlace& x)
    {
      using S = LuSpy;
      o.key("t1");
      for (auto& p : x.*(&S::aii_nji_nki_))
        o.t3(std::get<0>(p) / D, std::get<1>(p), std::get<2>(p));
      o.key("aji");
      for (auto v : x.*(&S::aji_))
        o.n(v / D);
      o.key("aikNjk");
      for (auto& p : x.*(&S::aik_njk_))
        o.p(p.first / D, p.second);
      o.key("ajkAji");
      for (auto& p : x.*(&S::ajk_aji_))
        o.p(p.first / D, p.second / D);
    }
  };

  template<class SM, class LU, class SML = SM, class SMU = SM>
  struct LsSpy : micm::LinearSolver<SM, LU, SML, SMU>
  {
    using B = micm::LinearSolver<SM, LU, SML, SMU>;
    using B::B;
    template<std::size_t D>
    static void print(Out& o, const B& x)
    {
      using S = LsSpy;
      LuSpy<LU>::template print<D>(o, x.*(&S::lu_decomp_));
      o.key("fw");
      auto lij = (x.*(&S::Lij_yj_)).begin();
      for (auto& r : x.*(&S::nLij_Lii_))
      {
        o.sep();
        o.os << r.second / D << ':';
        for (std::size_t i = 0; i < r.first; ++i, ++lij)
          o.os << (i ? "," : "") << lij->first / D << '.' << lij->second;
      }
      o.key("bw");
      auto uij = (x.*(&S::Uij_xj_)).begin();
      for (auto& r : x.*(&S::nUij_Uii_))
      {
        o.sep();
        o.os << r.second / D << ':';
        for (std::size_t i = 0; i < r.first; ++i, ++uij)
          o.os << (i ? "," : "") << uij->first / D << '.' << uij->second;
      }
    }
  };

  template<class SM, class LU>
  struct LsipSpy : micm::LinearSolverInPlace<SM, LU>
  {
    using B = micm::LinearSolverInPlace<SM, LU>;
    using B::B;
    template<std::size_t D>
    static void print(Out& o, const B& x, const SM& m)
    {
      using S = LsipSpy;
      LuSpy<LU>::template print<D>(o, x.*(&S::lu_decomp_));
      o.key("fw");
      auto lij = (x.*(&S::Lij_yj_)).begin();
      std::size_t row = 0;
      for (auto& r : x.*(&S::nLij_))
      {
        o.sep();
        o.os << m.VectorIndex(0, row, row) / D << ':';
        for (std::size_t i = 0; i < r; ++i, ++lij)
          o.os << (i ? "," : "") << lij->first / D << '.' << lij->second;
        ++row;
      }
      o.key("bw");
      auto uij = (x.*(&S::Uij_xj_)).begin();
      for (auto& r : x.*(&S::nUij_Uii_))
      {
        o.sep();
        o.os << r.second / D << ':';
        for (std::size_t i = 0; i < r.first; ++i, ++uij)
          o.os << (i ? "," : "") << uij->first / D << '.' << uij->second;
      }
    }
  };

  template<class SM>
  void printPattern(Out& o, const char* k, const SM& m)
  {
    o.key(k);
    for (auto& e : patternOf(m))
      o.p(e.first, e.second);
  }

  template<class SM>
  void printSparseVals(Out& o, const SM& m, std::size_t blocks)
  {
    auto pat = patternOf(m);
    for (std::size_t b = 0; b < blocks; ++b)
      for (auto& e : pat)
        o.d(m[b][e.first][e.second]);
  }

  template<class DM, class SM, class LU, std::size_t D, class SML = SM, class SMU = SM>
  std::string luSeparate(Tok& t, std::size_t n, std::size_t blocks)
  {
    std::size_t ne = t.nat();
    auto es = readPairs(t, ne);
    auto avals = t.flts(blocks * es.size());
    double garbage = t.flt();
    auto b = t.flts(blocks * n);
    SM A = makeSparse<SM>(n, blocks, es, 0.0);
    {
      std::size_t i = 0;
      for (std::size_t bl = 0; bl < blocks; ++bl)
        for (auto& e : es)
          A[bl][e.first][e.second] = avals[i++];
    }
    micm::LinearSolver<SM, LU, SML, SMU> ls(A, garbage);
    auto lu = LU::template GetLUMatrices<SM, SML, SMU>(A, garbage);
    // arbitrary prior contents: every storage slot (diagonal, fill-in, padding lanes) is overwritten AFTER creation,
    // so nothing the factory wrote can be relied upon by Decompose
    for (auto& v : lu.first.AsVector()) v = garbage;
    for (auto& v : lu.second.AsVector()) v = garbage;
    ls.Factor(A, lu.first, lu.second);
    DM x = denseFrom<DM>(blocks, n, b);
    ls.template Solve<DM>(x, lu.first, lu.second);
    Out o;
    o.os << "lu";
    printPattern(o, "Lp", lu.first);
    printPattern(o, "Up", lu.second);
    LsSpy<SM, LU, SML, SMU>::template print<D>(o, ls);
    o.key("L");
    printSparseVals(o, lu.first, blocks);
    o.key("U");
    printSparseVals(o, lu.second, blocks);
    o.key("x");
    printDense(o, x);
    return o.os.str();
  }

  template<class DM, class SM, class LU, std::size_t D>
  std::string luInPlace(Tok& t, std::size_t n, std::size_t blocks)
  {
    std::size_t ne = t.nat();
    auto es = readPairs(t, ne);
    auto avals = t.flts(blocks * es.size());
    double garbage = t.flt();
    (void)garbage;
    auto b = t.flts(blocks * n);
    SM A = makeSparse<SM>(n, blocks, es, 0.0);
    micm::LinearSolverInPlace<SM, LU> ls(A, 0);
    SM M = LU::template GetLUMatrix<SM>(A, 0);
    {
      std::size_t i = 0;
      for (std::size_t bl = 0; bl < blocks; ++bl)
        for (auto& e : es)
          M[bl][e.first][e.second] = avals[i++];
    }
    Out o;
    o.os << "lu";
    printPattern(o, "Lp", M);
    printPattern(o, "Up", M);
    LsipSpy<SM, LU>::template print<D>(o, ls, M);
    ls.Factor(M);
    DM x = denseFrom<DM>(blocks, n, b);
    ls.template Solve<DM>(x, M);
    o.key("L");
    printSparseVals(o, M, blocks);
    o.key("U");
    o.key("x");
    printDense(o, x);
    return o.os.str();
  }

  template<std::size_t L, bool CSC>
  std::string KernelCfg<L, CSC>::lu(Tok& t, std::size_t kind, std::size_t n, std::size_t blocks)
  {
    using DM = typename DenseOf<L>::type;
    using SM = SparseOf<L, CSC>;
    constexpr std::size_t D = rankDiv<L>();
    switch (kind)
    {
      case 0: return luSeparate<DM, SM, micm::LuDecompositionDoolittle, D>(t, n, blocks);
      case 1: return luSeparate<DM, SM, micm::LuDecompositionMozart, D>(t, n, blocks);
      case 2: return luInPlace<DM, SM, micm::LuDecompositionDoolittleInPlace, D>(t, n, blocks);
      default: return luInPlace<DM, SM, micm::LuDecompositionMozartInPlace, D>(t, n, blocks);
    }
  }

  // ---------------------------------------------------------------- whole solve with recording
  struct Recorder
  {
    std::vector<std::vector<double>> matrices;  // logical view of each matrix handed to Factor
    std::size_t limit = 0;
    std::vector<double> alphas, errs;  // per attempted Rosenbrock step (RecRosenbrock)
    std::size_t attLimit = 0;
    static Recorder& get()
    {
      static thread_local Recorder r;
      return r;
    }
    template<class SM>
    void record(const SM& m)
    {
      if (matrices.size() >= limit)
      {
        return;
      }
      std::vector<double> v;
      auto pat = patternOf(m);
      for (std::size_t b = 0; b < m.NumberOfBlocks(); ++b)
        for (auto& e : pat)
          v.push_back(m[b][e.first][e.second]);
      matrices.push_back(std::move(v));
    }
  };

  /// Rosenbrock solver that records, per attempted step, the alpha handed to AlphaMinusJacobian and the
  /// error norm returned by NormalizedError (the two CRTP customisation points); behaviour is the library's
  template<class RatesPolicy, class LinearSolverPolicy>
  class RecRosenbrock
      : public micm::AbstractRosenbrockSolver<RatesPolicy, LinearSolverPolicy, RecRosenbrock<RatesPolicy, LinearSolverPolicy>>
  {
    using Base = micm::AbstractRosenbrockSolver<RatesPolicy, LinearSolverPolicy, RecRosenbrock<RatesPolicy, LinearSolverPolicy>>;

   public:
    RecRosenbrock(LinearSolverPolicy&& linear_solver, RatesPolicy&& rates, auto& jacobian, const size_t number_of_species)
        : Base(std::move(linear_solver), std::move(rates), jacobian, number_of_species)
    {
    }
    RecRosenbrock(RecRosenbrock&&) = default;
    RecRosenbrock& operator=(RecRosenbrock&&) = default;
    template<class SparseMatrixPolicy>
    void AlphaMinusJacobian(SparseMatrixPolicy& jacobian, std::vector<std::size_t>& diag, const double& alpha) const
    {
      auto& r = Recorder::get();
      if (r.alphas.size() < r.attLimit)
        r.alphas.push_back(alpha);
      Base::template AlphaMinusJacobian<SparseMatrixPolicy>(jacobian, diag, alpha);
    }
    template<class DenseMatrixPolicy>
    double NormalizedError(const DenseMatrixPolicy& y, const DenseMatrixPolicy& y_new, const DenseMatrixPolicy& errors, auto& state)
        const
    {
      double e = Base::template NormalizedError<DenseMatrixPolicy>(y, y_new, errors, state);
      auto& r = Recorder::get();
      if (r.errs.size() < r.attLimit)
        r.errs.push_back(e);
      return e;
    }
  };

  struct RecRosParams : micm::RosenbrockSolverParameters
  {
    template<class RatesPolicy, class LinearSolverPolicy>
    using SolverType = RecRosenbrock<RatesPolicy, LinearSolverPolicy>;
    RecRosParams(const micm::RosenbrockSolverParameters& p)
        : micm::RosenbrockSolverParameters(p)
    {
    }
  };

  template<class SM, class LU>
  struct RecLinearSolver : micm::LinearSolver<SM, LU>
  {
    using B = micm::LinearSolver<SM, LU>;
    using B::B;
    void Factor(const SM& matrix, SM& lower, SM& upper) const
    {
      Recorder::get().record(matrix);
      B::Factor(matrix, lower, upper);
    }
  };

  template<class SM, class LU>
  struct RecLinearSolverInPlace : micm::LinearSolverInPlace<SM, LU>
  {
    using B = micm::LinearSolverInPlace<SM, LU>;
    using B::B;
    void Factor(SM& matrix) const
    {
      Recorder::get().record(matrix);
      B::Factor(matrix);
    }
  };

  template<std::size_t KIND>
  struct LuOf;
  template<>
  struct LuOf<0>
  {
    using type = micm::LuDecompositionDoolittle;
  };
  template<>
  struct LuOf<1>
  {
    using type = micm::LuDecompositionMozart;
  };
  template<>
  struct LuOf<2>
  {
    using type = micm::LuDecompositionDoolittleInPlace;
  };
  template<>
  struct LuOf<3>
  {
    using type = micm::LuDecompositionMozartInPlace;
  };

  template<class Params, std::size_t L, bool CSC, std::size_t KIND>
  struct BuilderOf
  {
    using DM = typename DenseOf<L>::type;
    using SM = SparseOf<L, CSC>;
    using LU = typename LuOf<KIND>::type;
    static constexpr bool inplace = KIND >= 2;
    using LS = std::conditional_t<inplace, RecLinearSolverInPlace<SM, LU>, RecLinearSolver<SM, LU>>;
    using ST = std::conditional_t<inplace, micm::State<DM, SM, LU>, micm::State<DM, SM, LU, SM, SM>>;
    using type = micm::SolverBuilder<Params, DM, SM, micm::ProcessSet, LU, LS, ST>;
  };

  inline const char* statusName(micm::SolverState s)
  {
    switch (s)
    {
      case micm::SolverState::NotYetCalled: return "NotYetCalled";
      case micm::SolverState::Running: return "Running";
      case micm::SolverState::Converged: return "Converged";
      case micm::SolverState::ConvergenceExceededMaxSteps: return "ConvergenceExceededMaxSteps";
      case micm::SolverState::StepSizeTooSmall: return "StepSizeTooSmall";
      case micm::SolverState::RepeatedlySingularMatrix: return "RepeatedlySingularMatrix";
      case micm::SolverState::NaNDetected: return "NaNDetected";
      case micm::SolverState::InfDetected: return "InfDetected";
      case micm::SolverState::AcceptingUnconvergedIntegration: return "AcceptingUnconvergedIntegration";
    }
    return "Unknown";
  }

  inline micm::RosenbrockSolverParameters rosParams(Tok& t)
  {
    micm::RosenbrockSolverParameters p = micm::RosenbrockSolverParameters::ThreeStageRosenbrockParameters();
    p.a_.fill(0);
    p.c_.fill(0);
    p.m_.fill(0);
    p.e_.fill(0);
    p.alpha_.fill(0);
    p.gamma_.fill(0);
    p.new_function_evaluation_.fill(false);
    p.stages_ = t.nat();
    std::size_t nt = p.stages_ * (p.stages_ - 1) / 2;
    for (std::size_t i = 0; i < nt; ++i)
      p.a_[i] = t.flt();
    for (std::size_t i = 0; i < nt; ++i)
      p.c_[i] = t.flt();
    for (std::size_t i = 0; i < p.stages_; ++i)
      p.m_[i] = t.flt();
    for (std::size_t i = 0; i < p.stages_; ++i)
      p.e_[i] = t.flt();
    p.gamma_[0] = t.flt();
    for (std::size_t i = 0; i < 6; ++i)   // the whole array, entries beyond `stages_` included
      p.new_function_evaluation_[i] = t.nat() != 0;
    p.estimator_of_local_order_ = t.flt();
    p.round_off_ = t.flt();
    p.factor_min_ = t.flt();
    p.factor_max_ = t.flt();
    p.rejection_factor_decrease_ = t.flt();
    p.safety_factor_ = t.flt();
    p.h_min_ = t.flt();
    p.h_max_ = t.flt();
    p.h_start_ = t.flt();
    p.max_number_of_steps_ = t.nat();
    return p;
  }

  inline micm::BackwardEulerSolverParameters beParams(Tok& t)
  {
    micm::BackwardEulerSolverParameters p{};
    p.small_ = t.flt();
    p.h_start_ = t.flt();
    p.max_number_of_steps_ = t.nat();
    std::size_t nr = t.nat();
    for (std::size_t i = 0; i < nr && i < p.time_step_reductions_.size(); ++i)
      p.time_step_reductions_[i] = t.flt();
    return p;
  }

  struct SolveInput
  {
    bool clamp;
    std::size_t ncell, ns;
    std::vector<std::size_t> perm;
    std::vector<micm::Process> procs;
    std::vector<double> k, y, atol;
    double rtol, dt;
    std::size_t traceLimit;
  };

  inline SolveInput solveInput(Tok& t)
  {
    SolveInput in;
    in.clamp = t.nat() != 0;
    in.ncell = t.nat();
    in.ns = t.nat();
    in.perm = t.nats(in.ns);
    in.procs = mech(t);
    in.k = t.flts(in.ncell * in.procs.size());
    in.y = t.flts(in.ncell * in.ns);
    in.atol = t.flts(in.ns);
    in.rtol = t.flt();
    in.dt = t.flt();
    in.traceLimit = t.nat();
    return in;
  }

  /// species are declared in the order that gives species `s<i>` the index perm[i]
  inline micm::System systemFor(const SolveInput& in)
  {
    std::vector<micm::Species> sp(in.ns);
    for (std::size_t i = 0; i < in.ns; ++i)
      sp[in.perm[i]] = micm::Species("s" + std::to_string(i));
    return micm::System(micm::SystemParameters{ .gas_phase_ = micm::Phase{ sp } });
  }

  /// `byName`: the end-to-end user path -- tolerances are species properties ("absolute tolerance"; a negative input means
  /// "no property"), the builder may reorder the state (`reorder`), concentrations are written and read through the
  /// state's name map.  Otherwise: reordering off, species `s<i>` declared at position perm[i], direct index access.
  template<class BuilderT, class ParamsT>
  std::string runSolve(const SolveInput& in, const ParamsT& params, bool byName = false, bool reorder = false)
  {
    auto sys = systemFor(in);
    if (byName)
    {
      std::vector<micm::Species> sp(in.ns);
      for (std::size_t i = 0; i < in.ns; ++i)
      {
        micm::Species s("s" + std::to_string(i));
        if (in.atol[i] >= 0)
          s.SetProperty<double>("absolute tolerance", in.atol[i]);
        sp[in.perm[i]] = s;
      }
      sys = micm::System(micm::SystemParameters{ .gas_phase_ = micm::Phase{ sp } });
    }
    auto solver = BuilderT(params)
                      .SetSystem(sys)
                      .SetReactions(in.procs)
                      .SetNumberOfGridCells(in.ncell)
                      .SetReorderState(byName && reorder)
                      .Build();
    auto state = solver.GetState();
    std::size_t nrx = in.procs.size();
    std::vector<std::size_t> col(in.ns);
    for (std::size_t s = 0; s < in.ns; ++s)
      col[s] = byName ? state.variable_map_.at("s" + std::to_string(s)) : in.perm[s];
    for (std::size_t c = 0; c < in.ncell; ++c)
      for (std::size_t r = 0; r < nrx; ++r)
        state.rate_constants_[c][r] = in.k[c * nrx + r];
    if (byName)
    {
      for (std::size_t s = 0; s < in.ns; ++s)
      {
        std::vector<double> conc(in.ncell);
        for (std::size_t c = 0; c < in.ncell; ++c)
          conc[c] = in.y[c * in.ns + s];
        state.SetConcentration(micm::Species("s" + std::to_string(s)), conc);
      }
    }
    else
    {
      for (std::size_t c = 0; c < in.ncell; ++c)
        for (std::size_t s = 0; s < in.ns; ++s)
          state.variables_[c][in.perm[s]] = in.y[c * in.ns + s];
      std::vector<double> atol(in.ns);
      for (std::size_t s = 0; s < in.ns; ++s)
        atol[in.perm[s]] = in.atol[s];
      state.SetAbsoluteTolerances(atol);
    }
    state.SetRelativeTolerance(in.rtol);
    // by-name variant: the forcing of the built solver at the initial state (reported per species name below)
    auto f0 = state.variables_;
    if (byName)
    {
      f0.Fill(0.0);
      solver.solver_.rates_.AddForcingTerms(state.rate_constants_, state.variables_, f0);
    }
    auto& rec = Recorder::get();
    rec.matrices.clear();
    rec.limit = in.traceLimit;
    rec.alphas.clear();
    rec.errs.clear();
    rec.attLimit = in.traceLimit > 0 ? 48 : 0;
    micm::SolverResult res = in.clamp ? solver.Solve(in.dt, state) : solver.Solve(in.dt, state, params);
    Out o;
    o.os << "solve status=" << statusName(res.state_) << " final=" << hexd(res.final_time_) << " stats="
         << res.stats_.function_calls_ << ',' << res.stats_.jacobian_updates_ << ',' << res.stats_.number_of_steps_ << ','
         << res.stats_.accepted_ << ',' << res.stats_.rejected_ << ',' << res.stats_.decompositions_ << ','
         << res.stats_.solves_;
    o.key("y");
    for (std::size_t c = 0; c < in.ncell; ++c)
      for (std::size_t s = 0; s < in.ns; ++s)
        o.d(state.variables_[c][col[s]]);
    if (byName)
    {
      o.key("col");
      for (std::size_t s = 0; s < in.ns; ++s)
        o.n(col[s]);
      o.key("atol");
      for (std::size_t s = 0; s < in.ns; ++s)
        o.d(state.absolute_tolerance_[col[s]]);
      o.key("f0");
      for (std::size_t c = 0; c < in.ncell; ++c)
        for (std::size_t s = 0; s < in.ns; ++s)
          o.d(f0[c][col[s]]);
    }
    o.key("trace");
    for (auto& m : rec.matrices)
    {
      o.sep();
      o.os << '[';
      bool f = true;
      for (auto v : m)
      {
        o.os << (f ? "" : " ") << hexd(v);
        f = false;
      }
      o.os << ']';
    }
    o.key("att");
    for (std::size_t i = 0; i < rec.alphas.size(); ++i)
    {
      o.sep();
      o.os << hexd(rec.alphas[i]) << ':' << (i < rec.errs.size() ? hexd(rec.errs[i]) : std::string("-"));
    }
    return o.os.str();
  }

  template<std::size_t L, bool CSC, std::size_t KIND>
  std::string SolveCfg<L, CSC, KIND>::solve(Tok& t, std::size_t integ)
  {
    // integ >= 10: the by-name variant ("bsolve"), preceded by the reorder flag
    bool byName = integ >= 10;
    integ %= 10;
    bool reorder = byName ? (t.nat() != 0) : false;
    SolveInput in = solveInput(t);
    if (integ == 0)
    {
      RecRosParams p(rosParams(t));
      return runSolve<typename BuilderOf<RecRosParams, L, CSC, KIND>::type>(in, p, byName, reorder);
    }
    auto p = beParams(t);
    return runSolve<typename BuilderOf<micm::BackwardEulerSolverParameters, L, CSC, KIND>::type>(in, p, byName, reorder);
  }

  // ---------------------------------------------------------------- state histories (C11 / C17 / C20)
  template<class ST>
  void fillScratch(ST& st, std::size_t integ, double g)
  {
    using DM = decltype(st.variables_);
    st.jacobian_.Fill(g);
    st.lower_matrix_.Fill(g);
    st.upper_matrix_.Fill(g);
    if (integ == 0)
    {
      auto* tv = static_cast<micm::RosenbrockTemporaryVariables<DM>*>(st.temporary_variables_.get());
      tv->Ynew_.Fill(g);
      tv->initial_forcing_.Fill(g);
      tv->Yerror_.Fill(g);
      for (auto& k : tv->K_)
        k.Fill(g);
    }
    else
    {
      auto* tv = static_cast<micm::BackwardEulerTemporaryVariables<DM>*>(st.temporary_variables_.get());
      tv->Yn_.Fill(g);
      tv->forcing_.Fill(g);
    }
  }

  /// solver parameters that differ from `p` in everything that matters (other coefficient set / stage count, other
  /// step-size controls): used to build the solver object that a history move-assigns another solver onto
  inline RecRosParams decoyParams(const RecRosParams& p)
  {
    auto q = p.stages_ == 2 ? micm::RosenbrockSolverParameters::SixStageDifferentialAlgebraicRosenbrockParameters()
                            : micm::RosenbrockSolverParameters::TwoStageRosenbrockParameters();
    q.h_start_ = p.h_start_ == 0.0 ? 0.37 : p.h_start_ * 0.37;
    q.max_number_of_steps_ = 3;
    return RecRosParams(q);
  }
  inline micm::BackwardEulerSolverParameters decoyParams(const micm::BackwardEulerSolverParameters& p)
  {
    micm::BackwardEulerSolverParameters q = p;
    q.h_start_ = p.h_start_ == 0.0 ? 0.37 : p.h_start_ * 0.37;
    q.max_number_of_steps_ = p.max_number_of_steps_ == 2 ? 5 : 2;
    q.time_step_reductions_ = { 0.3, 0.3, 0.3, 0.3, 0.3 };
    return q;
  }

  template<class BuilderT, class ParamsT, class BuilderT2, class ParamsT2>
  std::string runHist(Tok& t, std::size_t integ, std::size_t integ2, std::size_t ncell, std::size_t ns,
                      const std::vector<micm::Process>& procs, const ParamsT& params, const ParamsT2& params2)
  {
    std::vector<micm::Species> sp;
    for (std::size_t i = 0; i < ns; ++i)
      sp.push_back(micm::Species("s" + std::to_string(i)));
    auto solver_v = BuilderT(params)
                      .SetSystem(micm::System(micm::SystemParameters{ .gas_phase_ = micm::Phase{ sp } }))
                      .SetReactions(procs)
                      .SetNumberOfGridCells(ncell)
                      .SetReorderState(false)
                      .Build();
    // a second solver for the same system (other integrator or other coefficient set): its States have the same C++ type
    auto solver2_v = BuilderT2(params2)
                       .SetSystem(micm::System(micm::SystemParameters{ .gas_phase_ = micm::Phase{ sp } }))
                       .SetReactions(procs)
                       .SetNumberOfGridCells(ncell)
                       .SetReorderState(false)
                       .Build();
    // the solvers live behind pointers so that the history can move them (construct / assign)
    using S1 = decltype(solver_v);
    using S2 = decltype(solver2_v);
    auto sv1 = std::make_unique<S1>(std::move(solver_v));
    auto sv2 = std::make_unique<S2>(std::move(solver2_v));
    using ST = decltype(sv1->GetState());
    static_assert(std::is_same_v<ST, decltype(sv2->GetState())>);
    std::vector<std::unique_ptr<ST>> store(8);
    std::vector<int> owner(8, 0);  // which solver a State belongs to (copied/moved along with it)
    std::size_t nrx = procs.size();
    std::size_t nops = t.nat();
    std::string out = "hist ";
    for (std::size_t iop = 0; iop < nops; ++iop)
    {
      std::string op = t.str();
      std::string r = guarded(
          [&]() -> std::string
          {
            if (op == "new")
            {
              auto s = t.nat();
              store[s] = std::make_unique<ST>(sv1->GetState());
              owner[s] = 0;
              return "ok";
            }
            if (op == "new2")
            {
              auto s = t.nat();
              store[s] = std::make_unique<ST>(sv2->GetState());
              owner[s] = 1;
              return "ok";
            }
            if (op == "setc")
            {
              auto s = t.nat();
              auto i = t.nat();
              auto vals = t.flts(ncell);
              if (!store[s])
                return "nostate";
              store[s]->SetConcentration(micm::Species("s" + std::to_string(i)), vals);
              return "ok";
            }
            if (op == "setcond")
            {
              auto s = t.nat();
              auto c = t.nat();
              auto v = t.flts(3);
              if (!store[s])
                return "nostate";
              store[s]->conditions_[c].temperature_ = v[0];
              store[s]->conditions_[c].pressure_ = v[1];
              store[s]->conditions_[c].air_density_ = v[2];
              return "ok";
            }
            if (op == "setp")
            {
              auto s = t.nat();
              auto rr = t.nat();
              auto vals = t.flts(ncell);
              if (!store[s])
                return "nostate";
              store[s]->SetCustomRateParameter("r" + std::to_string(rr), vals);
              return "ok";
            }
            if (op == "calc")
            {
              auto s = t.nat();
              if (!store[s])
                return "nostate";
              if (owner[s] == 0)
                sv1->CalculateRateConstants(*store[s]);
              else
                sv2->CalculateRateConstants(*store[s]);
              Out o;
              printDense(o, store[s]->rate_constants_);
              return o.os.str();
            }
            if (op == "mvs_c")
            {
              // move-construct the solver into a new object; the old one is destroyed
              auto k = t.nat();
              if (k == 0)
                sv1 = std::make_unique<S1>(std::move(*sv1));
              else
                sv2 = std::make_unique<S2>(std::move(*sv2));
              return "ok";
            }
            if (op == "mvs_a")
            {
              // move-assign: into a temporary and back
              auto k = t.nat();
              if (k == 0)
              {
                S1 tmp(std::move(*sv1));
                *sv1 = std::move(tmp);
              }
              else
              {
                S2 tmp(std::move(*sv2));
                *sv2 = std::move(tmp);
              }
              return "ok";
            }
            if (op == "mvs_x")
            {
              // move-assign the solver ONTO a live solver of the same type that was built with different parameters,
              // destroy the source, and continue with the moved-to object: it must behave exactly like its source
              auto k = t.nat();
              auto sysd = micm::System(micm::SystemParameters{ .gas_phase_ = micm::Phase{ sp } });
              if (k == 0)
              {
                auto decoy = std::make_unique<S1>(BuilderT(decoyParams(params)).SetSystem(sysd).SetReactions(procs)
                                                      .SetNumberOfGridCells(ncell).SetReorderState(false).Build());
                *decoy = std::move(*sv1);
                sv1 = std::move(decoy);
              }
              else
              {
                auto decoy = std::make_unique<S2>(BuilderT2(decoyParams(params2)).SetSystem(sysd).SetReactions(procs)
                                                      .SetNumberOfGridCells(ncell).SetReorderState(false).Build());
                *decoy = std::move(*sv2);
                sv2 = std::move(decoy);
              }
              return "ok";
            }
            if (op == "setk")
            {
              auto s = t.nat();
              auto vals = t.flts(ncell * nrx);
              if (!store[s])
                return "nostate";
              for (std::size_t c = 0; c < ncell; ++c)
                for (std::size_t k = 0; k < nrx; ++k)
                  store[s]->rate_constants_[c][k] = vals[c * nrx + k];
              return "ok";
            }
            if (op == "settol")
            {
              auto s = t.nat();
              auto at = t.flts(ns);
              double rt = t.flt();
              if (!store[s])
                return "nostate";
              store[s]->SetAbsoluteTolerances(at);
              store[s]->SetRelativeTolerance(rt);
              return "ok";
            }
            if (op == "garbage")
            {
              auto s = t.nat();
              double g = t.flt();
              if (!store[s])
                return "nostate";
              fillScratch(*store[s], owner[s] == 0 ? integ : integ2, g);
              return "ok";
            }
            if (op == "solve")
            {
              auto s = t.nat();
              double dt = t.flt();
              if (!store[s])
                return "nostate";
              auto res = owner[s] == 0 ? sv1->Solve(dt, *store[s]) : sv2->Solve(dt, *store[s]);
              Out o;
              o.os << statusName(res.state_) << ' ' << hexd(res.final_time_) << ' ' << res.stats_.function_calls_ << ','
                   << res.stats_.jacobian_updates_ << ',' << res.stats_.number_of_steps_ << ',' << res.stats_.accepted_ << ','
                   << res.stats_.rejected_ << ',' << res.stats_.decompositions_ << ',' << res.stats_.solves_ << ' ';
              o.first = true;
              printDense(o, store[s]->variables_);
              return o.os.str();
            }
            if (op == "solvex")
            {
              // advance a State with the OTHER solver object (same mechanism, same State type): allowed whenever that
              // solver does not need more stage vectors than the State owns (both Rosenbrock, other.stages <= own.stages)
              auto s = t.nat();
              double dt = t.flt();
              if (!store[s])
                return "nostate";
              if constexpr (std::is_same_v<S1, S2> && std::is_base_of_v<micm::RosenbrockSolverParameters, ParamsT>)
              {
                std::size_t own = owner[s] == 0 ? params.stages_ : params2.stages_;
                std::size_t oth = owner[s] == 0 ? params2.stages_ : params.stages_;
                if (oth > own)
                  return "skip";
                auto res = owner[s] == 0 ? sv2->Solve(dt, *store[s]) : sv1->Solve(dt, *store[s]);
                Out o;
                o.os << statusName(res.state_) << ' ' << hexd(res.final_time_) << ' ' << res.stats_.function_calls_ << ','
                     << res.stats_.jacobian_updates_ << ',' << res.stats_.number_of_steps_ << ',' << res.stats_.accepted_ << ','
                     << res.stats_.rejected_ << ',' << res.stats_.decompositions_ << ',' << res.stats_.solves_ << ' ';
                o.first = true;
                printDense(o, store[s]->variables_);
                return o.os.str();
              }
              else
                return "skip";
            }
            if (op == "dump")
            {
              auto s = t.nat();
              if (!store[s])
                return "nostate";
              Out o;
              printDense(o, store[s]->variables_);
              return o.os.str();
            }
            // ---- the setters of State with arbitrary (possibly invalid) arguments: names, labels, lengths
            if (op == "xsetc" || op == "xsetp")
            {
              auto s = t.nat();
              std::string name = t.str();
              auto vals = t.flts(t.nat());
              if (!store[s])
                return "nostate";
              if (op == "xsetc")
                store[s]->SetConcentration(micm::Species(name), vals);
              else
                store[s]->SetCustomRateParameter(name, vals);
              return "ok";
            }
            if (op == "xsetc1" || op == "xsetp1")
            {
              auto s = t.nat();
              std::string name = t.str();
              double v = t.flt();
              if (!store[s])
                return "nostate";
              if (op == "xsetc1")
                store[s]->SetConcentration(micm::Species(name), v);
              else
                store[s]->SetCustomRateParameter(name, v);
              return "ok";
            }
            if (op == "xsetcs" || op == "xsetps" || op == "xsetcs_law" || op == "xsetps_law")
            {
              // bulk setters taking an unordered_map.  The `_law` variants check, on the real object, the prefix law the
              // model proves (C20_bulk_prefix): the entries applied are exactly those that precede the first rejected
              // entry in the map's own iteration order.  Every entry carries values that differ from what the State holds.
              bool conc = op[4] == 'c';
              bool law = op.size() > 6;
              auto s = t.nat();
              std::size_t k = t.nat();
              std::unordered_map<std::string, std::vector<double>> m;
              for (std::size_t i = 0; i < k; ++i)
              {
                std::string name = t.str();
                auto vals = t.flts(t.nat());
                m[name] = vals;
              }
              if (!store[s])
                return "nostate";
              auto& st = *store[s];
              std::string outcome = "ok";
              try
              {
                if (conc)
                  st.SetConcentrations(m);
                else
                  st.SetCustomRateParameters(m);
              }
              catch (const std::system_error& e)
              {
                outcome = errString(e);
              }
              if (!law)
                return outcome;
              auto& names = conc ? st.variable_map_ : st.custom_rate_parameter_map_;
              bool seenBad = false;
              for (auto& kv : m)   // the same object iterates in the same order
              {
                auto it = names.find(kv.first);
                bool valid = it != names.end() && kv.second.size() == ncell;
                if (!valid)
                {
                  seenBad = true;
                  continue;
                }
                bool applied = true;
                for (std::size_t c = 0; c < ncell; ++c)
                {
                  double cur = conc ? st.variables_[c][it->second] : st.custom_rate_parameters_[c][it->second];
                  if (cur != kv.second[c])
                    applied = false;
                }
                if (applied == seenBad)
                  return "law broken at entry " + kv.first + " (" + outcome + ")";
              }
              if ((outcome == "ok") == seenBad)
                return "law broken: outcome " + outcome;
              return "law ok";
            }
            if (op == "xunsafep")
            {
              auto s = t.nat();
              std::size_t nrows = t.nat();
              std::vector<std::vector<double>> rows;
              for (std::size_t i = 0; i < nrows; ++i)
                rows.push_back(t.flts(t.nat()));
              if (!store[s])
                return "nostate";
              store[s]->UnsafelySetCustomRateParameters(rows);
              return "ok";
            }
            if (op == "xsettol")
            {
              auto s = t.nat();
              auto at = t.flts(t.nat());
              double rt = t.flt();
              if (!store[s])
                return "nostate";
              store[s]->SetAbsoluteTolerances(at);
              store[s]->SetRelativeTolerance(rt);
              return "ok";
            }
            if (op == "dumpv")
            {
              auto s = t.nat();
              if (!store[s])
                return "nostate";
              Out o;
              o.os << "dumpv";
              o.key("v");
              printDense(o, store[s]->variables_);
              o.key("p");
              printDense(o, store[s]->custom_rate_parameters_);
              o.key("a");
              for (auto v : store[s]->absolute_tolerance_)
                o.d(v);
              o.key("r");
              o.d(store[s]->relative_tolerance_);
              return o.os.str();
            }
            if (op == "cpc")
            {
              auto s = t.nat();
              auto d = t.nat();
              if (!store[s])
              {
                store[d].reset();
                return "ok";
              }
              auto copy = std::make_unique<ST>(*store[s]);
              store[d] = std::move(copy);
              owner[d] = owner[s];
              return "ok";
            }
            if (op == "cpa0" || op == "cpax")
            {
              // copy-ASSIGN onto a destination that does not already look like the source: a default-constructed State
              // (cpa0), or a State of a solver built for a different mechanism, hence another Jacobian pattern (cpax)
              auto s = t.nat();
              auto d = t.nat();
              if (!store[s])
              {
                store[d].reset();
                return "ok";
              }
              if (s == d)
                return "ok";
              if (op == "cpa0")
                store[d] = std::make_unique<ST>();
              else
              {
                std::vector<micm::Process> chain;
                for (std::size_t i = 0; i < ns; ++i)
                  chain.push_back(micm::Process::Create()
                                      .SetReactants({ sp[i], sp[(i + 1) % ns] })
                                      .SetProducts({ micm::Yield(sp[(i + 2) % ns], 1.0) })
                                      .SetRateConstant(micm::UserDefinedRateConstant({ .label_ = "c" + std::to_string(i) })));
                auto other = BuilderT(params)
                                 .SetSystem(micm::System(micm::SystemParameters{ .gas_phase_ = micm::Phase{ sp } }))
                                 .SetReactions(chain)
                                 .SetNumberOfGridCells(ncell)
                                 .SetReorderState(false)
                                 .Build();
                store[d] = std::make_unique<ST>(other.GetState());
              }
              *store[d] = *store[s];
              owner[d] = owner[s];
              return "ok";
            }
            if (op == "cpa")
            {
              auto s = t.nat();
              auto d = t.nat();
              if (!store[s])
              {
                store[d].reset();
                return "ok";
              }
              if (!store[d])
                store[d] = std::make_unique<ST>(sv1->GetState());
              *store[d] = *store[s];
              owner[d] = owner[s];
              return "ok";
            }
            if (op == "mvc")
            {
              auto s = t.nat();
              auto d = t.nat();
              if (!store[s])
              {
                store[d].reset();
                return "ok";
              }
              if (s == d)
                return "ok";
              auto moved = std::make_unique<ST>(std::move(*store[s]));
              store[s].reset();
              store[d] = std::move(moved);
              owner[d] = owner[s];
              return "ok";
            }
            if (op == "mva")
            {
              auto s = t.nat();
              auto d = t.nat();
              if (!store[s])
              {
                store[d].reset();
                return "ok";
              }
              if (s == d)
                return "ok";
              if (!store[d])
                store[d] = std::make_unique<ST>(sv1->GetState());
              *store[d] = std::move(*store[s]);
              store[s].reset();
              owner[d] = owner[s];
              return "ok";
            }
            auto s = t.nat();
            if (!store[s])
              return "nostate";
            if (op == "bad_species")
              store[s]->SetConcentration(micm::Species("nosuch"), std::vector<double>(ncell, 1.0));
            else if (op == "bad_conc_len")
              store[s]->SetConcentration(micm::Species("s0"), std::vector<double>(ncell + 1, 1.0));
            else if (op == "bad_label")
              store[s]->SetCustomRateParameter("nosuch", std::vector<double>(ncell, 1.0));
            else if (op == "bad_param_len")
              store[s]->SetCustomRateParameter("r0", std::vector<double>(ncell + 2, 1.0));
            else if (op == "bad_conc_scalar")
              store[s]->SetConcentration(micm::Species("s0"), store[s]->variables_[0][0]);
            else if (op == "bad_unsafe_cells")
              store[s]->UnsafelySetCustomRateParameters(std::vector<std::vector<double>>(ncell + 1, std::vector<double>(nrx, 0.0)));
            else if (op == "bad_unsafe_params")
              store[s]->UnsafelySetCustomRateParameters(std::vector<std::vector<double>>(ncell, std::vector<double>(nrx + 1, 0.0)));
            else
              return "bad-op";
            return "ok";
          });
      out += (iop ? " | " : "") + r;
    }
    return out;
  }

  template<std::size_t L, bool CSC, std::size_t KIND>
  std::string SolveCfg<L, CSC, KIND>::hist(Tok& t, std::size_t integ)
  {
    std::size_t ncell = t.nat();
    std::size_t ns = t.nat();
    auto procs = mech(t);
    using RB = typename BuilderOf<micm::RosenbrockSolverParameters, L, CSC, KIND>::type;
    using BB = typename BuilderOf<micm::BackwardEulerSolverParameters, L, CSC, KIND>::type;
    auto rp = micm::RosenbrockSolverParameters::ThreeStageRosenbrockParameters();
    micm::BackwardEulerSolverParameters bp;
    if (integ == 0)
      rp = rosParams(t);
    else
      bp = beParams(t);
    std::size_t integ2 = t.nat();
    auto rp2 = micm::RosenbrockSolverParameters::ThreeStageRosenbrockParameters();
    micm::BackwardEulerSolverParameters bp2;
    if (integ2 == 0)
      rp2 = rosParams(t);
    else
      bp2 = beParams(t);
    if (integ == 0 && integ2 == 0)
      return runHist<RB, micm::RosenbrockSolverParameters, RB, micm::RosenbrockSolverParameters>(t, 0, 0, ncell, ns, procs, rp, rp2);
    if (integ == 0 && integ2 == 1)
      return runHist<RB, micm::RosenbrockSolverParameters, BB, micm::BackwardEulerSolverParameters>(t, 0, 1, ncell, ns, procs, rp, bp2);
    if (integ == 1 && integ2 == 0)
      return runHist<BB, micm::BackwardEulerSolverParameters, RB, micm::RosenbrockSolverParameters>(t, 1, 0, ncell, ns, procs, bp, rp2);
    return runHist<BB, micm::BackwardEulerSolverParameters, BB, micm::BackwardEulerSolverParameters>(t, 1, 1, ncell, ns, procs, bp, bp2);
  }

  // ---------------------------------------------------------------- rate constants (C15)
  struct RateSpec
  {
    std::size_t kind, npr;
    std::vector<double> v;
    std::string label;
    bool alkoxy = false;
    int n = 0;
  };

  template<std::size_t L>
  std::string DenseCfg<L>::rates(Tok& t, std::size_t ncell, std::size_t nproc, bool reuse, bool positional)
  {
    using DM = typename DenseOf<L>::type;
    using SM = SparseOf<L, false>;
    std::vector<micm::Process> procs;
    auto a = micm::Species("a");
    std::vector<std::string> labels;
    for (std::size_t i = 0; i < nproc; ++i)
    {
      std::size_t kind = t.nat();
      std::size_t npr = t.nat();
      std::vector<micm::Species> reactants{ a };
      for (std::size_t k = 0; k < npr; ++k)
      {
        micm::Species m("M" + std::to_string(k));
        m.SetThirdBody();
        reactants.push_back(m);
      }
      micm::ProcessBuilder pb = micm::Process::Create();
      pb.SetReactants(reactants);
      pb.SetProducts({});
      switch (kind)
      {
        case 0:
        {
          auto v = t.flts(5);
          pb.SetRateConstant(micm::ArrheniusRateConstant({ .A_ = v[0], .B_ = v[1], .C_ = v[2], .D_ = v[3], .E_ = v[4] }));
          break;
        }
        case 1:
        {
          auto v = t.flts(8);
          pb.SetRateConstant(micm::TroeRateConstant({ .k0_A_ = v[0],
                                                      .k0_B_ = v[1],
                                                      .k0_C_ = v[2],
                                                      .kinf_A_ = v[3],
                                                      .kinf_B_ = v[4],
                                                      .kinf_C_ = v[5],
                                                      .Fc_ = v[6],
                                                      .N_ = v[7] }));
          break;
        }
        case 2:
        {
          auto v = t.flts(8);
          pb.SetRateConstant(micm::TernaryChemicalActivationRateConstant({ .k0_A_ = v[0],
                                                                           .k0_B_ = v[1],
                                                                           .k0_C_ = v[2],
                                                                           .kinf_A_ = v[3],
                                                                           .kinf_B_ = v[4],
                                                                           .kinf_C_ = v[5],
                                                                           .Fc_ = v[6],
                                                                           .N_ = v[7] }));
          break;
        }
        case 3:
        {
          bool alk = t.nat() != 0;
          auto v = t.flts(3);
          int n = (int)t.nat();
          pb.SetRateConstant(micm::BranchedRateConstant(
              { .branch_ = alk ? micm::BranchedRateConstantParameters::Branch::Alkoxy
                               : micm::BranchedRateConstantParameters::Branch::Nitrate,
                .X_ = v[0],
                .Y_ = v[1],
                .a0_ = v[2],
                .n_ = n }));
          break;
        }
        case 4:
        {
          auto v = t.flts(3);
          pb.SetRateConstant(micm::TunnelingRateConstant({ .A_ = v[0], .B_ = v[1], .C_ = v[2] }));
          break;
        }
        case 5:
        {
          std::string label = t.str();
          auto v = t.flts(3);  // diffusion coefficient, molecular weight, reaction probability
          micm::Species sp("a");
          sp.SetProperty<double>(micm::property_keys::GAS_DIFFUSION_COEFFICIENT, v[0]);
          sp.SetProperty<double>(micm::property_keys::MOLECULAR_WEIGHT, v[1]);
          pb.SetRateConstant(
              micm::SurfaceRateConstant({ .label_ = label, .species_ = sp, .reaction_probability_ = v[2] }));
          labels.push_back(label + ".effective radius [m]");
          labels.push_back(label + ".particle number concentration [# m-3]");
          break;
        }
        default:
        {
          std::string label = t.str();
          double sc = t.flt();
          pb.SetRateConstant(micm::UserDefinedRateConstant({ .label_ = label, .scaling_factor_ = sc }));
          labels.push_back(label);
          break;
        }
      }
      procs.push_back(pb);
    }
    using B = micm::CpuSolverBuilder<micm::RosenbrockSolverParameters, DM, SM>;
    B builder(micm::RosenbrockSolverParameters::ThreeStageRosenbrockParameters());
    builder.SetSystem(micm::System(micm::SystemParameters{ .gas_phase_ = micm::Phase{ std::vector<micm::Species>{ a } } }))
        .SetNumberOfGridCells(ncell);
    if (reuse)
    {
      // the same builder was used before for another mechanism of the same size (other rate-constant types, parameters
      // and labels): SetReactions then ASSIGNS the new processes over the old ones
      // ... element by element, down to Species::operator=: the decoy reactions have a third body where the real
      // ones have the ordinary species, and at least as many reactants
      std::vector<micm::Process> decoy;
      micm::Species tb0("X0"), tb1("X1"), tb2("X2");
      tb0.SetThirdBody();
      tb1.SetThirdBody();
      tb2.SetThirdBody();
      for (std::size_t i = 0; i < nproc; ++i)
        decoy.push_back(micm::Process::Create()
                            .SetReactants(i % 3 == 2 ? std::vector<micm::Species>{ a } : std::vector<micm::Species>{ tb0, a, tb1, tb2 })
                            .SetRateConstant(i % 2 ? micm::UserDefinedRateConstant({ .label_ = "decoy" + std::to_string(i), .scaling_factor_ = 7.0 })
                                                   : micm::UserDefinedRateConstant({ .label_ = "other" + std::to_string(i), .scaling_factor_ = 0.125 })));
      auto first = builder.SetReactions(decoy).Build();
      (void)first;
    }
    auto solver = builder.SetReactions(procs).Build();
    auto state = solver.GetState();
    for (std::size_t c = 0; c < ncell; ++c)
    {
      state.conditions_[c].temperature_ = t.flt();
      state.conditions_[c].pressure_ = t.flt();
      state.conditions_[c].air_density_ = t.flt();
    }
    auto vals = t.flts(ncell * labels.size());
    if (positional)
    {
      // the positional setter: one row per cell, columns in the State's own label order
      std::vector<std::vector<double>> rows(ncell, std::vector<double>(state.custom_rate_parameter_map_.size(), 0.0));
      for (std::size_t l = 0; l < labels.size(); ++l)
        for (std::size_t c = 0; c < ncell; ++c)
          rows[c][state.custom_rate_parameter_map_.at(labels[l])] = vals[c * labels.size() + l];
      state.UnsafelySetCustomRateParameters(rows);
    }
    else
      for (std::size_t l = 0; l < labels.size(); ++l)
      {
        std::vector<double> col(ncell);
        for (std::size_t c = 0; c < ncell; ++c)
          col[c] = vals[c * labels.size() + l];
        state.SetCustomRateParameter(labels[l], col);
      }
    solver.CalculateRateConstants(state);
    Out o;
    o.os << "rates";
    o.key("labels");
    for (auto& l : labels)
    {
      std::string x = l;
      for (auto& ch : x)
        if (ch == ' ')
          ch = '_';
      o.s(x);
    }
    o.key("k");
    printDense(o, state.rate_constants_);
    return o.os.str();
  }

  // ---------------------------------------------------------------- copy-assignment between States of two solvers (C14, C17)
  /// the same species, two solvers whose internal species orders differ (declaration order, and optionally the
  /// Markowitz reordering for the second); every read is by name
  template<std::size_t L>
  std::string DenseCfg<L>::cpassign(Tok& t, std::size_t ns, std::size_t ncell)
  {
    using DM = typename DenseOf<L>::type;
    using SM = SparseOf<L, false>;
    bool reorder2 = t.nat() != 0;
    // cell count of the State that is assigned ONTO (0: the same as the source's); with a grouped layout two different
    // counts in one group have the same storage size
    std::size_t ncell2 = t.nat();
    if (ncell2 == 0)
      ncell2 = ncell;
    auto perm1 = t.nats(ns);
    auto perm2 = t.nats(ns);
    auto vals1 = t.flts(ns * ncell);
    auto vals2 = t.flts(ns * ncell);
    std::size_t j = t.nat();
    auto newv = t.flts(ncell);
    double dt = t.flt();
    auto name = [](std::size_t i) { return "s" + std::to_string(i); };
    std::vector<micm::Species> sp1(ns), sp2(ns);
    for (std::size_t i = 0; i < ns; ++i)
    {
      sp1[perm1[i]] = micm::Species(name(i));
      sp2[perm2[i]] = micm::Species(name(i));
    }
    std::vector<micm::Process> procs;
    for (std::size_t i = 0; i + 1 < ns; ++i)
      procs.push_back(micm::Process::Create()
                          .SetReactants({ micm::Species(name(i)) })
                          .SetProducts({ micm::Yield(micm::Species(name(i + 1)), 1.0) })
                          .SetRateConstant(micm::ArrheniusRateConstant({ .A_ = 0.5 + (double)i })));
    procs.push_back(micm::Process::Create()
                        .SetReactants({ micm::Species(name(ns - 1)), micm::Species(name(0)) })
                        .SetProducts({ micm::Yield(micm::Species(name(ns / 2)), 1.0) })
                        .SetRateConstant(micm::ArrheniusRateConstant({ .A_ = 0.25 })));
    using B = micm::CpuSolverBuilder<micm::RosenbrockSolverParameters, DM, SM>;
    auto solver1 = B(micm::RosenbrockSolverParameters::ThreeStageRosenbrockParameters())
                       .SetSystem(micm::System(micm::SystemParameters{ .gas_phase_ = micm::Phase{ sp1 } }))
                       .SetReactions(procs)
                       .SetNumberOfGridCells(ncell)
                       .SetReorderState(false)
                       .Build();
    auto solver2 = B(micm::RosenbrockSolverParameters::ThreeStageRosenbrockParameters())
                       .SetSystem(micm::System(micm::SystemParameters{ .gas_phase_ = micm::Phase{ sp2 } }))
                       .SetReactions(procs)
                       .SetNumberOfGridCells(ncell)
                       .SetReorderState(reorder2)
                       .Build();
    // the destination of the forward assignment may come from a solver for another number of cells
    auto solver2n = B(micm::RosenbrockSolverParameters::ThreeStageRosenbrockParameters())
                        .SetSystem(micm::System(micm::SystemParameters{ .gas_phase_ = micm::Phase{ sp2 } }))
                        .SetReactions(procs)
                        .SetNumberOfGridCells(ncell2)
                        .SetReorderState(reorder2)
                        .Build();
    auto fill = [&](auto& st, const std::vector<double>& vals)
    {
      std::size_t nc = st.variables_.NumRows();
      for (std::size_t i = 0; i < ns; ++i)
      {
        std::vector<double> col(nc);
        for (std::size_t c = 0; c < nc; ++c)
          col[c] = vals[i * ncell + c % ncell];
        st.SetConcentration(micm::Species(name(i)), col);
      }
      for (auto& c : st.conditions_)
      {
        c.temperature_ = 280.0;
        c.pressure_ = 90000.0;
        c.air_density_ = 40.0;
      }
    };
    auto a = solver1.GetState();
    auto b = solver2n.GetState();
    fill(a, vals1);
    fill(b, vals2);
    b = a;  // copy assignment onto a State with another name map
    auto a2 = solver1.GetState();
    auto bsrc = solver2.GetState();
    fill(a2, vals1);
    fill(bsrc, vals2);
    a2 = bsrc;
    Out o;
    o.os << "cpassign";
    auto consistent = [&](auto& x, auto& src)
    {
      if (x.variable_map_ != src.variable_map_ || x.variable_names_ != src.variable_names_)
        return false;
      if (x.variables_.NumRows() != src.variables_.NumRows() || x.variables_.NumColumns() != src.variables_.NumColumns() ||
          x.rate_constants_.NumRows() != src.rate_constants_.NumRows() || x.conditions_.size() != src.conditions_.size())
        return false;
      for (auto& [nm, idx] : x.variable_map_)
        if (idx >= x.variable_names_.size() || x.variable_names_[idx] != nm)
          return false;
      return true;
    };
    o.key("cons");
    o.n(consistent(b, a) && consistent(a2, bsrc) ? 1 : 0);
    auto byName = [&](auto& st)
    {
      for (std::size_t i = 0; i < ns; ++i)
        for (std::size_t c = 0; c < ncell; ++c)
          o.d(st.variables_[c][st.variable_map_.at(name(i))]);
    };
    o.key("byname");
    byName(b);
    o.key("rev");
    byName(a2);
    auto bset = b;
    bset.SetConcentration(micm::Species(name(j)), newv);
    o.key("after_a");
    byName(a);
    o.key("after_b");
    byName(bset);
    // the assigned State is a State of solver 1 now: solving it is solving a copy-constructed State
    auto ref = a;
    solver1.CalculateRateConstants(ref);
    auto r1 = solver1.Solve(dt, ref);
    solver1.CalculateRateConstants(b);
    auto r2 = solver1.Solve(dt, b);
    bool same = r1.state_ == r2.state_ && r1.stats_.number_of_steps_ == r2.stats_.number_of_steps_;
    for (std::size_t i = 0; i < ns && same; ++i)
      for (std::size_t c = 0; c < ncell; ++c)
      {
        double x = ref.variables_[c][ref.variable_map_.at(name(i))], y = b.variables_[c][b.variable_map_.at(name(i))];
        if (std::memcmp(&x, &y, sizeof x) != 0)
          same = false;
      }
    o.key("solve_same");
    o.n(same ? 1 : 0);
    return o.os.str();
  }

  // ---------------------------------------------------------------- error norm / BE convergence test (C07)
  template<std::size_t L>
  std::string DenseCfg<L>::norm(Tok& t, std::size_t ncell, std::size_t ns)
  {
    using DM = typename DenseOf<L>::type;
    using SM = SparseOf<L, false>;
    auto atol = t.flts(ns);
    double rtol = t.flt();
    auto y = t.flts(ncell * ns);
    auto yn = t.flts(ncell * ns);
    auto er = t.flts(ncell * ns);
    double small = t.flt();
    std::vector<micm::Species> sp;
    std::vector<micm::Process> procs;
    for (std::size_t i = 0; i < ns; ++i)
    {
      sp.push_back(micm::Species("s" + std::to_string(i)));
      procs.push_back(micm::Process::Create()
                          .SetReactants({ sp.back() })
                          .SetProducts({})
                          .SetRateConstant(micm::UserDefinedRateConstant({ .label_ = "r" + std::to_string(i) })));
    }
    auto solver = micm::CpuSolverBuilder<micm::RosenbrockSolverParameters, DM, SM>(
                      micm::RosenbrockSolverParameters::ThreeStageRosenbrockParameters())
                      .SetSystem(micm::System(micm::SystemParameters{ .gas_phase_ = micm::Phase{ sp } }))
                      .SetReactions(procs)
                      .SetNumberOfGridCells(ncell)
                      .SetReorderState(false)
                      .Build();
    auto state = solver.GetState();
    state.SetAbsoluteTolerances(atol);
    state.SetRelativeTolerance(rtol);
    DM Y = denseFrom<DM>(ncell, ns, y), Yn = denseFrom<DM>(ncell, ns, yn), E = denseFrom<DM>(ncell, ns, er);
    double e = solver.solver_.NormalizedError(Y, Yn, E, state);
    micm::BackwardEulerSolverParameters bp;
    bp.small_ = small;
    using BE = micm::BackwardEuler<micm::ProcessSet, micm::LinearSolver<SM>>;
    bool conv = BE::IsConverged(bp, E, Yn, atol, rtol);
    return "norm e=" + hexd(e) + " ef=" + hexd(e) + " conv=" + (conv ? "1" : "0");
  }

  // ---------------------------------------------------------------- flat-storage dumps (whole AsVector(), padding included)
  template<std::size_t L, bool CSC>
  std::string KernelCfg<L, CSC>::jacobianflat(Tok& t, std::size_t ncell, std::size_t ns)
  {
    using DM = typename DenseOf<L>::type;
    using SM = SparseOf<L, CSC>;
    auto perm = t.nats(ns);
    auto procs = mech(t);
    std::size_t nrx = procs.size();
    auto k = t.flts(ncell * nrx);
    auto y = t.flts(ncell * ns);
    micm::ProcessSet ps(procs, nameMap(perm));
    auto nz = ps.NonZeroJacobianElements();
    SM J = micm::BuildJacobian<SM>(nz, ncell, ns);
    ps.SetJacobianFlatIds(J);
    DM K = denseFrom<DM>(ncell, nrx, k), Y = denseFrom<DM>(ncell, ns, y);
    J.Fill(0.0);
    ps.SubtractJacobianTerms<DM, SM>(K, Y, J);
    Out o;
    o.os << "jacobianflat";
    o.key("J");
    for (auto v : J.AsVector())
      o.d(v);
    return o.os.str();
  }

  template<class DM, class SM, class LU>
  std::string luflatSeparate(Tok& t, std::size_t n, std::size_t blocks)
  {
    std::size_t ne = t.nat();
    auto es = readPairs(t, ne);
    auto avals = t.flts(blocks * es.size());
    double garbage = t.flt();
    auto b = t.flts(blocks * n);
    SM A = makeSparse<SM>(n, blocks, es, 0.0);
    {
      std::size_t i = 0;
      for (std::size_t bl = 0; bl < blocks; ++bl)
        for (auto& e : es)
          A[bl][e.first][e.second] = avals[i++];
    }
    micm::LinearSolver<SM, LU> ls(A, garbage);
    auto lu = LU::template GetLUMatrices<SM, SM, SM>(A, garbage);
    // arbitrary prior contents: every storage slot (diagonal, fill-in, padding lanes) is overwritten AFTER creation,
    // so nothing the factory wrote can be relied upon by Decompose
    for (auto& v : lu.first.AsVector()) v = garbage;
    for (auto& v : lu.second.AsVector()) v = garbage;
    ls.Factor(A, lu.first, lu.second);
    DM x = denseFrom<DM>(blocks, n, b);
    ls.template Solve<DM>(x, lu.first, lu.second);
    Out o;
    o.os << "luflat";
    o.key("L");
    for (auto v : lu.first.AsVector())
      o.d(v);
    o.key("U");
    for (auto v : lu.second.AsVector())
      o.d(v);
    o.key("x");
    for (auto v : x.AsVector())
      o.d(v);
    return o.os.str();
  }

  template<class DM, class SM, class LU>
  std::string luflatInPlace(Tok& t, std::size_t n, std::size_t blocks)
  {
    std::size_t ne = t.nat();
    auto es = readPairs(t, ne);
    auto avals = t.flts(blocks * es.size());
    double garbage = t.flt();
    (void)garbage;
    auto b = t.flts(blocks * n);
    SM A = makeSparse<SM>(n, blocks, es, 0.0);
    micm::LinearSolverInPlace<SM, LU> ls(A, 0);
    SM M = LU::template GetLUMatrix<SM>(A, 0);
    {
      std::size_t i = 0;
      for (std::size_t bl = 0; bl < blocks; ++bl)
        for (auto& e : es)
          M[bl][e.first][e.second] = avals[i++];
    }
    ls.Factor(M);
    DM x = denseFrom<DM>(blocks, n, b);
    ls.template Solve<DM>(x, M);
    Out o;
    o.os << "luflat";
    o.key("L");
    for (auto v : M.AsVector())
      o.d(v);
    o.key("U");
    o.key("x");
    for (auto v : x.AsVector())
      o.d(v);
    return o.os.str();
  }

  template<std::size_t L, bool CSC>
  std::string KernelCfg<L, CSC>::luflat(Tok& t, std::size_t kind, std::size_t n, std::size_t blocks)
  {
    using DM = typename DenseOf<L>::type;
    using SM = SparseOf<L, CSC>;
    switch (kind)
    {
      case 0: return luflatSeparate<DM, SM, micm::LuDecompositionDoolittle>(t, n, blocks);
      case 1: return luflatSeparate<DM, SM, micm::LuDecompositionMozart>(t, n, blocks);
      case 2: return luflatInPlace<DM, SM, micm::LuDecompositionDoolittleInPlace>(t, n, blocks);
      default: return luflatInPlace<DM, SM, micm::LuDecompositionMozartInPlace>(t, n, blocks);
    }
  }

  template<std::size_t L, bool CSC>
  std::string KernelCfg<L, CSC>::alphaflat(Tok& t, std::size_t n, std::size_t blocks)
  {
    using DM = typename DenseOf<L>::type;
    using SM = SparseOf<L, CSC>;
    std::size_t ne = t.nat();
    auto es = readPairs(t, ne);
    double alpha = t.flt();
    SM J = makeSparse<SM>(n, blocks, es, 0.0);
    for (std::size_t i = 0; i < J.AsVector().size(); ++i)
      J.AsVector()[i] = (double)i;
    auto diag = J.DiagonalIndices(0);
    // any Rosenbrock solver object of this layout serves: AlphaMinusJacobian does not read the solver
    auto a = micm::Species("a");
    auto solver = micm::CpuSolverBuilder<micm::RosenbrockSolverParameters, DM, SM>(
                      micm::RosenbrockSolverParameters::ThreeStageRosenbrockParameters())
                      .SetSystem(micm::System(micm::SystemParameters{ .gas_phase_ = micm::Phase{ std::vector<micm::Species>{ a } } }))
                      .SetReactions({ micm::Process::Create().SetReactants({ a }).SetProducts({}).SetRateConstant(
                          micm::UserDefinedRateConstant({ .label_ = "r" })) })
                      .SetNumberOfGridCells(1)
                      .Build();
    solver.solver_.AlphaMinusJacobian(J, diag, alpha);
    Out o;
    o.os << "alphaflat";
    o.key("J");
    for (auto v : J.AsVector())
      o.d(v);
    return o.os.str();
  }

  template<std::size_t L, bool CSC>
  std::string KernelCfg<L, CSC>::lumix(Tok& t, std::size_t kind, std::size_t n, std::size_t cscL, std::size_t cscU, std::size_t blocks)
  {
    using DM = typename DenseOf<L>::type;
    using SM = SparseOf<L, CSC>;
    using S0 = SparseOf<L, false>;
    using S1 = SparseOf<L, true>;
    constexpr std::size_t D = rankDiv<L>();
    using DOO = micm::LuDecompositionDoolittle;
    using MOZ = micm::LuDecompositionMozart;
    switch ((kind == 1 ? 4 : 0) + cscL * 2 + cscU)
    {
      case 0: return luSeparate<DM, SM, DOO, D, S0, S0>(t, n, blocks);
      case 1: return luSeparate<DM, SM, DOO, D, S0, S1>(t, n, blocks);
      case 2: return luSeparate<DM, SM, DOO, D, S1, S0>(t, n, blocks);
      case 3: return luSeparate<DM, SM, DOO, D, S1, S1>(t, n, blocks);
      case 4: return luSeparate<DM, SM, MOZ, D, S0, S0>(t, n, blocks);
      case 5: return luSeparate<DM, SM, MOZ, D, S0, S1>(t, n, blocks);
      case 6: return luSeparate<DM, SM, MOZ, D, S1, S0>(t, n, blocks);
      default: return luSeparate<DM, SM, MOZ, D, S1, S1>(t, n, blocks);
    }
  }
}  // namespace vh
