// Correspondence harness: shared helpers (token reader, hex doubles, mechanism construction).
// Includes the real micm headers from the repository's current working tree.
#pragma once
#include <micm/process/arrhenius_rate_constant.hpp>
#include <micm/process/branched_rate_constant.hpp>
#include <micm/process/process.hpp>
#include <micm/process/process_set.hpp>
#include <micm/process/surface_rate_constant.hpp>
#include <micm/process/ternary_chemical_activation_rate_constant.hpp>
#include <micm/process/troe_rate_constant.hpp>
#include <micm/process/tunneling_rate_constant.hpp>
#include <micm/process/user_defined_rate_constant.hpp>
#include <micm/solver/backward_euler.hpp>
#include <micm/solver/backward_euler_solver_parameters.hpp>
#include <micm/solver/linear_solver.hpp>
#include <micm/solver/linear_solver_in_place.hpp>
#include <micm/solver/lu_decomposition.hpp>
#include <micm/solver/rosenbrock.hpp>
#include <micm/solver/rosenbrock_solver_parameters.hpp>
#include <micm/solver/solver_builder.hpp>
#include <micm/solver/state.hpp>
#include <micm/system/phase.hpp>
#include <micm/system/species.hpp>
#include <micm/system/system.hpp>
#include <micm/util/matrix.hpp>
#include <micm/util/sparse_matrix.hpp>
#include <micm/util/sparse_matrix_standard_ordering.hpp>
#include <micm/util/sparse_matrix_vector_ordering.hpp>
#include <micm/util/vector_matrix.hpp>

#include <cstdint>
#include <cstring>
#include <functional>
#include <map>
#include <sstream>
#include <string>
#include <vector>

namespace vh
{
  struct Tok
  {
    std::vector<std::string> t;
    std::size_t i = 0;
    explicit Tok(const std::string& line)
    {
      std::istringstream is(line);
      std::string s;
      while (is >> s)
        t.push_back(s);
    }
    std::string str()
    {
      return i < t.size() ? t[i++] : std::string();
    }
    std::size_t nat()
    {
      auto s = str();
      return s.empty() ? 0 : std::stoull(s);
    }
    double flt()
    {
      auto s = str();
      if (s == "nan")
        return std::numeric_limits<double>::quiet_NaN();
      std::uint64_t u = std::stoull(s, nullptr, 16);
      double d;
      std::memcpy(&d, &u, 8);
      return d;
    }
    std::vector<std::size_t> nats(std::size_t n)
    {
      std::vector<std::size_t> v(n);
      for (auto& x : v)
        x = nat();
      return v;
    }
    std::vector<double> flts(std::size_t n)
    {
      std::vector<double> v(n);
      for (auto& x : v)
        x = flt();
      return v;
    }
  };

  inline std::string hexd(double d)
  {
    if (d != d)
      return "nan";
    std::uint64_t u;
    std::memcpy(&u, &d, 8);
    char buf[20];
    std::snprintf(buf, sizeof buf, "%016llx", (unsigned long long)u);
    return buf;
  }

  struct Out
  {
    std::ostringstream os;
    bool first = true;
    void sep()
    {
      if (!first)
        os << ' ';
      first = false;
    }
    void key(const char* k)
    {
      os << ' ' << k << '=';
      first = true;
    }
    void d(double x)
    {
      sep();
      os << hexd(x);
    }
    void n(std::size_t x)
    {
      sep();
      os << x;
    }
    void s(const std::string& x)
    {
      sep();
      os << x;
    }
    void p(std::size_t a, std::size_t b)
    {
      sep();
      os << a << ',' << b;
    }
    void t3(std::size_t a, std::size_t b, std::size_t c)
    {
      sep();
      os << a << ',' << b << ',' << c;
    }
  };

  inline std::string errString(const std::system_error& e)
  {
    std::string c = e.code().category().name();
    for (auto& ch : c)
      if (ch == ' ')
        ch = '_';
    return "err " + c + " " + std::to_string(e.code().value());
  }

  /// run f, mapping exceptions to the protocol's error outcomes
  inline std::string guarded(const std::function<std::string()>& f)
  {
    try
    {
      return f();
    }
    catch (const std::system_error& e)
    {
      return errString(e);
    }
    catch (const std::out_of_range&)
    {
      return "err std::out_of_range 0";
    }
    catch (const std::runtime_error&)
    {
      return "err std::runtime_error 0";
    }
  }

  inline micm::Species spec(std::size_t i)
  {
    if (i >= 1000000)
    {
      micm::Species s("M" + std::to_string(i - 1000000));
      s.SetThirdBody();
      return s;
    }
    return micm::Species("s" + std::to_string(i));
  }

  /// mechanism: nrx then per reaction `nr ids.. np (id yield)..`
  inline std::vector<micm::Process> mech(Tok& t)
  {
    std::size_t nrx = t.nat();
    std::vector<micm::Process> ps;
    for (std::size_t r = 0; r < nrx; ++r)
    {
      std::size_t nr = t.nat();
      std::vector<micm::Species> reactants;
      for (std::size_t k = 0; k < nr; ++k)
        reactants.push_back(spec(t.nat()));
      std::size_t np = t.nat();
      std::vector<micm::Yield> products;
      for (std::size_t k = 0; k < np; ++k)
      {
        auto sp = spec(t.nat());
        double y = t.flt();
        products.push_back(micm::Yield(sp, y));
      }
      ps.push_back(micm::Process::Create()
                       .SetReactants(reactants)
                       .SetProducts(products)
                       .SetRateConstant(micm::UserDefinedRateConstant({ .label_ = "r" + std::to_string(r) })));
    }
    return ps;
  }

  inline std::map<std::string, std::size_t> nameMap(const std::vector<std::size_t>& perm)
  {
    std::map<std::string, std::size_t> m;
    for (std::size_t i = 0; i < perm.size(); ++i)
      m["s" + std::to_string(i)] = perm[i];
    return m;
  }

  template<std::size_t L>
  struct DenseOf
  {
    using type = micm::VectorMatrix<double, L>;
  };
  template<>
  struct DenseOf<0>
  {
    using type = micm::Matrix<double>;
  };
  template<std::size_t L, bool CSC>
  struct SparseOrd
  {
    using type = std::conditional_t<
        CSC,
        micm::SparseMatrixVectorOrderingCompressedSparseColumn<L>,
        micm::SparseMatrixVectorOrderingCompressedSparseRow<L>>;
  };
  template<bool CSC>
  struct SparseOrd<0, CSC>
  {
    using type = std::conditional_t<
        CSC,
        micm::SparseMatrixStandardOrderingCompressedSparseColumn,
        micm::SparseMatrixStandardOrderingCompressedSparseRow>;
  };
  template<std::size_t L, bool CSC>
  using SparseOf = micm::SparseMatrix<double, typename SparseOrd<L, CSC>::type>;

  inline std::string statusNameStr(int s)
  {
    return "S" + std::to_string(s);
  }

  using Handler = std::function<std::string(Tok&)>;
  std::map<std::string, Handler>& registry();
  struct Reg
  {
    Reg(const std::string& name, Handler h)
    {
      registry()[name] = std::move(h);
    }
  };
}  // namespace vh
