// C18: JIT-compiled backend vs the vectorised CPU backend, in process.
// For pseudo-random mechanisms (seeded) and each vector length L: build a JIT solver and a CPU solver
// (VectorMatrix<L>, vector-ordered sparse matrix, Doolittle LU), give both the same state and compare
// SolverResult and concentrations bit for bit; also compares the generated forcing / Jacobian functions
// with the CPU kernels, and checks that a cell count different from L is rejected with the JIT error.
#include "common.hpp"

#include <micm/jit/jit_compiler.hpp>
#include <micm/jit/solver/jit_rosenbrock.hpp>
#include <micm/jit/solver/jit_solver_builder.hpp>
#include <micm/jit/solver/jit_solver_parameters.hpp>

#include <micm/jit/process/jit_process_set.hpp>

#include <algorithm>
#include <iostream>

namespace
{
  struct Rng
  {
    std::uint64_t s;
    std::uint64_t u64()
    {
      s += 0x9E3779B97F4A7C15ull;
      std::uint64_t z = s;
      z = (z ^ (z >> 30)) * 0xBF58476D1CE4E5B9ull;
      z = (z ^ (z >> 27)) * 0x94D049BB133111EBull;
      return z ^ (z >> 31);
    }
    std::size_t below(std::size_t n)
    {
      return n ? u64() % n : 0;
    }
    double unit()
    {
      return (u64() >> 11) / 9007199254740992.0;
    }
  };

  struct Problem
  {
    std::size_t ns;
    std::vector<micm::Species> species;
    std::vector<micm::Process> procs;
  };

  Problem makeProblem(Rng& r)
  {
    Problem p;
    p.ns = 2 + r.below(4);
    for (std::size_t i = 0; i < p.ns; ++i)
      p.species.push_back(micm::Species("s" + std::to_string(i)));
    std::size_t nrx = 1 + r.below(5);
    for (std::size_t k = 0; k < nrx; ++k)
    {
      std::size_t nr = 1 + r.below(3);
      std::vector<micm::Species> reactants;
      for (std::size_t q = 0; q < nr; ++q)
        reactants.push_back((q > 0 && r.below(3) == 0) ? reactants[0] : p.species[r.below(p.ns)]);
      std::size_t np = r.below(4);
      std::vector<micm::Yield> products;
      for (std::size_t q = 0; q < np; ++q)
        products.push_back(micm::Yields(p.species[r.below(p.ns)], r.below(2) ? 1.0 : 0.25 * (1 + r.below(7))));
      p.procs.push_back(micm::Process::Create()
                            .SetReactants(reactants)
                            .SetProducts(products)
                            .SetRateConstant(micm::UserDefinedRateConstant({ .label_ = "r" + std::to_string(k) })));
    }
    // every species must be used (unused species are fine with the default builder setting)
    return p;
  }

  template<std::size_t L>
  std::string compare(std::uint64_t seed)
  {
    Rng r{ seed * 7919 + L };
    Problem p = makeProblem(r);
    auto params = micm::RosenbrockSolverParameters::ThreeStageRosenbrockParameters();
    switch (r.below(5))
    {
      case 0: params = micm::RosenbrockSolverParameters::TwoStageRosenbrockParameters(); break;
      case 1: params = micm::RosenbrockSolverParameters::FourStageRosenbrockParameters(); break;
      case 2: params = micm::RosenbrockSolverParameters::FourStageDifferentialAlgebraicRosenbrockParameters(); break;
      case 3: params = micm::RosenbrockSolverParameters::SixStageDifferentialAlgebraicRosenbrockParameters(); break;
      default: break;
    }
    auto system = micm::System(micm::SystemParameters{ .gas_phase_ = micm::Phase{ p.species } });
    using VM = micm::VectorMatrix<double, L>;
    using VS = micm::SparseMatrix<double, micm::SparseMatrixVectorOrdering<L>>;
    auto cpu = micm::CpuSolverBuilder<micm::RosenbrockSolverParameters, VM, VS>(params)
                   .SetSystem(system)
                   .SetReactions(p.procs)
                   .SetNumberOfGridCells(L)
                   .Build();
    // half of the runs: the JIT solver object existed before (built for another mechanism) and the solver under test is
    // MOVE-ASSIGNED onto it, as a host model does when it re-configures
    Rng r2{ seed * 104729 + 3 * L + 1 };
    Problem decoy = makeProblem(r2);
    bool move_assigned = seed % 2 == 1;
    auto jit = micm::JitSolverBuilder<micm::JitRosenbrockSolverParameters, L>(micm::JitRosenbrockSolverParameters(params))
                   .SetSystem(move_assigned ? micm::System(micm::SystemParameters{ .gas_phase_ = micm::Phase{ decoy.species } }) : system)
                   .SetReactions(move_assigned ? decoy.procs : p.procs)
                   .SetNumberOfGridCells(L)
                   .Build();
    if (move_assigned)
      jit = micm::JitSolverBuilder<micm::JitRosenbrockSolverParameters, L>(micm::JitRosenbrockSolverParameters(params))
                .SetSystem(system)
                .SetReactions(p.procs)
                .SetNumberOfGridCells(L)
                .Build();
    auto sc = cpu.GetState();
    auto sj = jit.GetState();
    std::size_t nrx = p.procs.size();
    for (std::size_t c = 0; c < L; ++c)
    {
      for (std::size_t k = 0; k < nrx; ++k)
      {
        double v = std::exp(std::log(1e-3) + r.unit() * std::log(1e7));
        sc.rate_constants_[c][k] = v;
        sj.rate_constants_[c][k] = v;
      }
      for (std::size_t i = 0; i < p.ns; ++i)
      {
        double v = r.below(5) == 0 ? 0.0 : 10.0 * r.unit();
        sc.variables_[c][i] = v;
        sj.variables_[c][i] = v;
      }
    }
    // maps must agree (same builder logic)
    bool same_map = sc.variable_map_ == sj.variable_map_;
    double dt = std::exp(std::log(1e-2) + r.unit() * std::log(1e5));
    auto rc = cpu.Solve(dt, sc);
    auto rj = jit.Solve(dt, sj);
    bool eq = same_map && rc.state_ == rj.state_ && rc.final_time_ == rj.final_time_ &&
              rc.stats_.number_of_steps_ == rj.stats_.number_of_steps_ && rc.stats_.accepted_ == rj.stats_.accepted_ &&
              rc.stats_.rejected_ == rj.stats_.rejected_ && rc.stats_.function_calls_ == rj.stats_.function_calls_ &&
              rc.stats_.jacobian_updates_ == rj.stats_.jacobian_updates_ &&
              rc.stats_.decompositions_ == rj.stats_.decompositions_ && rc.stats_.solves_ == rj.stats_.solves_;
    std::string firstdiff;
    for (std::size_t c = 0; c < L && eq; ++c)
      for (std::size_t i = 0; i < p.ns; ++i)
      {
        double a = sc.variables_[c][i], b = sj.variables_[c][i];
        if (vh::hexd(a) != vh::hexd(b))
        {
          eq = false;
          firstdiff = " cell=" + std::to_string(c) + " species=" + std::to_string(i) + " cpu=" + vh::hexd(a) + " jit=" + vh::hexd(b);
          break;
        }
      }
    // wrong cell count must be rejected
    std::string guard = "none";
    try
    {
      auto bad = micm::JitSolverBuilder<micm::JitRosenbrockSolverParameters, L>(micm::JitRosenbrockSolverParameters(params))
                     .SetSystem(system)
                     .SetReactions(p.procs)
                     .SetNumberOfGridCells(L + 1)
                     .Build();
      guard = "built";
    }
    catch (const std::system_error& e)
    {
      guard = vh::errString(e);
    }
    // the run-time guard (the only one that sees the State actually handed to a JIT-built solver): a Jacobian with any
    // number of blocks other than L -- fewer, more, or a whole multiple of L -- must be rejected by the diagonal-shift
    // entry point, exactly L blocks must be accepted
    std::string guard_rt;
    for (std::size_t n : { std::size_t(L - 1), std::size_t(L), std::size_t(L + 1), std::size_t(2 * L), std::size_t(3 * L) })
    {
      if (n == 0)
        continue;
      // the solver's own Jacobian pattern (the generated function addresses its diagonal), with n blocks
      micm::ProcessSet ps_pattern(p.procs, sj.variable_map_);
      VS Jn = micm::BuildJacobian<VS>(ps_pattern.NonZeroJacobianElements(), n, p.ns);
      auto diag = Jn.DiagonalIndices(0);
      std::string res = "accepted";
      try
      {
        jit.solver_.AlphaMinusJacobian(Jn, diag, 1.0);
      }
      catch (const std::system_error& e)
      {
        res = vh::errString(e);
      }
      bool want_reject = n != L;
      if (want_reject != (res != "accepted"))
        guard_rt += (guard_rt.empty() ? "" : ",") + std::to_string(n) + ":" + res;
    }
    if (guard_rt.empty())
      guard_rt = "ok";
    std::replace(guard_rt.begin(), guard_rt.end(), ' ', '_');
    return "jit L=" + std::to_string(L) + " seed=" + std::to_string(seed) + " ns=" + std::to_string(p.ns) + " nrx=" + std::to_string(nrx) +
           " status=" + vh::statusNameStr((int)rc.state_) + " steps=" + std::to_string(rc.stats_.number_of_steps_) +
           " equal=" + (eq ? "1" : "0") + firstdiff + " guard=" + guard + " guard_rt=" + guard_rt;
  }

  // function level: the generated forcing / Jacobian functions against the vectorised CPU kernels, including a
  // history in which the flat ids are set twice (first on the declared pattern, then on the fill-closed one)
  template<std::size_t L>
  std::string compareFunctions(std::uint64_t seed)
  {
    Rng r{ seed * 104729 + L };
    Problem p = makeProblem(r);
    using VM = micm::VectorMatrix<double, L>;
    using VS = micm::SparseMatrix<double, micm::SparseMatrixVectorOrdering<L>>;
    std::map<std::string, std::size_t> vmap;
    for (std::size_t i = 0; i < p.ns; ++i)
      vmap["s" + std::to_string(i)] = i;
    micm::ProcessSet cpu(p.procs, vmap);
    // half of the runs: a process set that was generated for another mechanism and is move-assigned the one under test
    Rng r2{ seed * 15485863 + 5 * L + 2 };
    Problem decoy = makeProblem(r2);
    std::map<std::string, std::size_t> dmap;
    for (std::size_t i = 0; i < decoy.ns; ++i)
      dmap[decoy.species[i].name_] = i;
    micm::JitProcessSet<L> jit = seed % 2 == 1 ? micm::JitProcessSet<L>(decoy.procs, dmap) : micm::JitProcessSet<L>(p.procs, vmap);
    if (seed % 2 == 1)
      jit = micm::JitProcessSet<L>(p.procs, vmap);
    std::size_t nrx = p.procs.size();
    VM K(L, nrx, 0.0), Y(L, p.ns, 0.0), Fc(L, p.ns, 0.0), Fj(L, p.ns, 0.0);
    for (std::size_t c = 0; c < L; ++c)
    {
      for (std::size_t k = 0; k < nrx; ++k)
        K[c][k] = r.below(6) == 0 ? 0.0 : 10.0 * r.unit();
      for (std::size_t i = 0; i < p.ns; ++i)
        Y[c][i] = 5.0 * r.unit();
    }
    cpu.template AddForcingTerms<VM>(K, Y, Fc);
    jit.template AddForcingTerms<VM>(K, Y, Fj);
    bool eqF = Fc.AsVector().size() == Fj.AsVector().size();
    for (std::size_t i = 0; eqF && i < Fc.AsVector().size(); ++i)
      eqF = vh::hexd(Fc.AsVector()[i]) == vh::hexd(Fj.AsVector()[i]);
    auto nz = cpu.NonZeroJacobianElements();
    bool eqJ = true;
    int rounds = 0;
    for (int round = 0; round < 2; ++round)
    {
      VS J1 = micm::BuildJacobian<VS>(nz, L, p.ns);
      VS Jc = round == 0 ? J1 : micm::LuDecompositionMozartInPlace::template GetLUMatrix<VS>(J1, 0);
      VS Jj = Jc;
      cpu.SetJacobianFlatIds(Jc);
      jit.SetJacobianFlatIds(Jj);
      Jc.Fill(0.0);
      Jj.Fill(0.0);
      cpu.template SubtractJacobianTerms<VM, VS>(K, Y, Jc);
      jit.template SubtractJacobianTerms<VM, VS>(K, Y, Jj);
      for (std::size_t i = 0; i < Jc.AsVector().size(); ++i)
        if (vh::hexd(Jc.AsVector()[i]) != vh::hexd(Jj.AsVector()[i]))
          eqJ = false;
      ++rounds;
    }
    // LU decomposition and linear solve, function level: the generated Doolittle decomposition and substitution
    // against the vectorised CPU Doolittle / LinearSolver on the mechanism's own Jacobian pattern, diagonally shifted
    bool eqLU = true, eqX = true;
    {
      VS A = micm::BuildJacobian<VS>(nz, L, p.ns);
      cpu.SetJacobianFlatIds(A);
      A.Fill(0.0);
      cpu.template SubtractJacobianTerms<VM, VS>(K, Y, A);
      A.AddToDiagonal(50.0 + 100.0 * r.unit());
      micm::LinearSolver<VS, micm::LuDecompositionDoolittle> lsc(A, 0.0);
      auto luc = micm::LuDecompositionDoolittle::template GetLUMatrices<VS, VS, VS>(A, 0.0);
      micm::JitLinearSolver<L, VS, micm::JitLuDecompositionDoolittle<L>> lsj(A, 0.0);
      auto luj = micm::JitLuDecompositionDoolittle<L>::template GetLUMatrices<VS, VS, VS>(A, 0.0);
      for (auto* m : { &luc.first, &luc.second, &luj.first, &luj.second })
        for (auto& v : m->AsVector())
          v = -3.25;   // arbitrary prior contents
      VS Ac = A, Aj = A;
      lsc.Factor(Ac, luc.first, luc.second);
      lsj.Factor(Aj, luj.first, luj.second);
      for (std::size_t i = 0; i < luc.first.AsVector().size(); ++i)
        if (vh::hexd(luc.first.AsVector()[i]) != vh::hexd(luj.first.AsVector()[i]))
          eqLU = false;
      for (std::size_t i = 0; i < luc.second.AsVector().size(); ++i)
        if (vh::hexd(luc.second.AsVector()[i]) != vh::hexd(luj.second.AsVector()[i]))
          eqLU = false;
      VM bc(L, p.ns, 0.0);
      for (std::size_t c = 0; c < L; ++c)
        for (std::size_t i = 0; i < p.ns; ++i)
          bc[c][i] = 10.0 * r.unit() - 5.0;
      VM bj = bc;
      lsc.template Solve<VM>(bc, luc.first, luc.second);
      lsj.template Solve<VM>(bj, luj.first, luj.second);
      for (std::size_t i = 0; i < bc.AsVector().size(); ++i)
        if (vh::hexd(bc.AsVector()[i]) != vh::hexd(bj.AsVector()[i]))
          eqX = false;
    }
    return "jitfn L=" + std::to_string(L) + " seed=" + std::to_string(seed) + " ns=" + std::to_string(p.ns) + " nrx=" + std::to_string(nrx) +
           " forcing_equal=" + (eqF ? "1" : "0") + " jacobian_equal=" + (eqJ ? "1" : "0") + " lu_equal=" + (eqLU ? "1" : "0") +
           " solve_equal=" + (eqX ? "1" : "0") + " rounds=" + std::to_string(rounds);
  }
}  // namespace

namespace
{
}

  // ---------------------------------------------------------------- generated programs (tie of Model/JitProg.lean)
  struct PSpyJ : micm::ProcessSet
  {
    static auto nReact() { return &PSpyJ::number_of_reactants_; }
    static auto reactIds() { return &PSpyJ::reactant_ids_; }
    static auto nProd() { return &PSpyJ::number_of_products_; }
    static auto prodIds() { return &PSpyJ::product_ids_; }
    static auto yields() { return &PSpyJ::yields_; }
    static auto jReactIds() { return &PSpyJ::jacobian_reactant_ids_; }
    static auto jYields() { return &PSpyJ::jacobian_yields_; }
    static auto flatIds() { return &PSpyJ::jacobian_flat_ids_; }
    static auto info() { return &PSpyJ::jacobian_process_info_; }
  };

  /// the tables of a JitProcessSet<L> and the textual IR of the functions it generated from them
  template<std::size_t L>
  void dumpPrograms(std::uint64_t seed, std::ostream& os)
  {
    Rng r{ seed * 2654435761ull + L };
    Problem p = makeProblem(r);
    using VS = micm::SparseMatrix<double, micm::SparseMatrixVectorOrdering<L>>;
    std::map<std::string, std::size_t> vmap;
    for (std::size_t i = 0; i < p.ns; ++i)
      vmap["s" + std::to_string(i)] = i;
    std::string ir_forcing, ir_jac;
    micm::verif::JitIrSink() = &ir_forcing;
    micm::JitProcessSet<L> jit(p.procs, vmap);
    micm::verif::JitIrSink() = nullptr;
    VS J = micm::BuildJacobian<VS>(jit.NonZeroJacobianElements(), L, p.ns);
    if (seed % 2)
      J = micm::LuDecompositionMozartInPlace::template GetLUMatrix<VS>(J, 0);  // fill-closed pattern
    micm::verif::JitIrSink() = &ir_jac;
    jit.SetJacobianFlatIds(J);
    micm::verif::JitIrSink() = nullptr;
    const micm::ProcessSet& ps = jit;
    auto nums = [&](const auto& v)
    {
      std::string o;
      for (auto x : v)
        o += (o.empty() ? "" : ",") + std::to_string(x);
      return o.empty() ? std::string("-") : o;
    };
    auto hexs = [&](const auto& v)
    {
      std::string o;
      for (auto x : v)
        o += (o.empty() ? "" : ",") + vh::hexd(x);
      return o.empty() ? std::string("-") : o;
    };
    os << "CASE L=" << L << " seed=" << seed << " ns=" << p.ns << " nnz=" << J.FlatBlockSize() << "\n";
    os << "TABLES nreact=" << nums(ps.*PSpyJ::nReact()) << " nprod=" << nums(ps.*PSpyJ::nProd()) << " rids=" << nums(ps.*PSpyJ::reactIds())
       << " pids=" << nums(ps.*PSpyJ::prodIds()) << " yields=" << hexs(ps.*PSpyJ::yields()) << " jinfo=";
    {
      std::string o;
      for (auto& i : ps.*PSpyJ::info())
        o += (o.empty() ? "" : ",") + std::to_string(i.process_id_) + ":" + std::to_string(i.number_of_dependent_reactants_) + ":" +
             std::to_string(i.number_of_products_);
      os << (o.empty() ? "-" : o);
    }
    os << " jrids=" << nums(ps.*PSpyJ::jReactIds()) << " jyields=" << hexs(ps.*PSpyJ::jYields()) << " flat=" << nums(ps.*PSpyJ::flatIds()) << "\n";
    os << "IR forcing\n" << ir_forcing << "\nENDIR\n";
    os << "IR jacobian\n" << ir_jac << "\nENDIR\n";
    // LU decomposition and linear solve generated for the pattern of J (declared or fill-closed)
    auto pattern = [&](const VS& m)
    {
      std::string o;
      for (std::size_t i = 0; i < p.ns; ++i)
        for (std::size_t j = 0; j < p.ns; ++j)
          if (!m.IsZero(i, j))
            o += (o.empty() ? "" : ",") + std::to_string(i) + ":" + std::to_string(j);
      return o.empty() ? std::string("-") : o;
    };
    {
      std::string ir;
      micm::verif::JitIrSink() = &ir;
      micm::JitLinearSolver<L, VS, micm::JitLuDecompositionDoolittle<L>> lsj(J, 0.0);
      micm::verif::JitIrSink() = nullptr;
      os << "PATTERN n=" << p.ns << " elems=" << pattern(J) << "\n";
      os << "IR lusolve\n" << ir << "\nENDIR\n";
    }
    // a whole JIT-built solver: its diagonal-shift function against its own Jacobian pattern
    {
      std::string ir;
      micm::verif::JitIrSink() = &ir;
      auto solver = micm::JitSolverBuilder<micm::JitRosenbrockSolverParameters, L>(
                        micm::JitRosenbrockSolverParameters(micm::RosenbrockSolverParameters::ThreeStageRosenbrockParameters()))
                        .SetSystem(micm::System(micm::SystemParameters{ .gas_phase_ = micm::Phase{ p.species } }))
                        .SetReactions(p.procs)
                        .SetNumberOfGridCells(L)
                        .Build();
      micm::verif::JitIrSink() = nullptr;
      auto st = solver.GetState();
      os << "SOLVERPATTERN n=" << p.ns << " elems=" << pattern(st.jacobian_) << "\n";
      os << "IR solver\n" << ir << "\nENDIR\n";
    }
  }

int main(int argc, char** argv)
{
  if (argc > 1 && std::string(argv[1]) == "ir")
  {
    std::uint64_t seed0 = argc > 2 ? std::stoull(argv[2]) : 1;
    int n = argc > 3 ? std::stoi(argv[3]) : 3;
    for (int k = 0; k < n; ++k)
    {
      std::uint64_t seed = seed0 * 1000 + k;
      dumpPrograms<1>(seed, std::cout);
      dumpPrograms<2>(seed, std::cout);
      dumpPrograms<3>(seed, std::cout);
      dumpPrograms<4>(seed, std::cout);
    }
    return 0;
  }
  std::uint64_t seed0 = argc > 1 ? std::stoull(argv[1]) : 1;
  int n = argc > 2 ? std::stoi(argv[2]) : 3;
  for (int k = 0; k < n; ++k)
  {
    std::uint64_t seed = seed0 * 1000 + k;
    std::cout << vh::guarded([&]() { return compare<1>(seed); }) << std::endl;
    std::cout << vh::guarded([&]() { return compare<2>(seed); }) << std::endl;
    std::cout << vh::guarded([&]() { return compare<3>(seed); }) << std::endl;
    std::cout << vh::guarded([&]() { return compare<4>(seed); }) << std::endl;
    std::cout << vh::guarded([&]() { return compareFunctions<1>(seed); }) << std::endl;
    std::cout << vh::guarded([&]() { return compareFunctions<2>(seed); }) << std::endl;
    std::cout << vh::guarded([&]() { return compareFunctions<3>(seed); }) << std::endl;
    std::cout << vh::guarded([&]() { return compareFunctions<4>(seed); }) << std::endl;
  }
  return 0;
}
