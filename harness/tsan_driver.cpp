// C16: one solver object shared by many threads, each with its own State.
// Built with -fsanitize=thread.  Every thread performs GetState / set inputs / CalculateRateConstants /
// Solve sequences derived from its own seed; the same sequences are first executed serially and the
// results must agree bit for bit.  A fingerprint of the solver object's observable tables is taken
// before and after.  Output: one line per configuration.
#include "common.hpp"

#include <atomic>
#include <iostream>
#include <thread>

namespace
{
  struct Rng
  {
    std::uint64_t s;
    std::uint64_t u64()
    {
      s += 0x9E3779B97F4A7C15ull;
      std::uint64_t z = s;
      z = (z ^ (z >> 30)) * 0xBF58476D1CE4E5B9ull;
      z = (z ^ (z >> 27)) * 0x94D049BB133111EBull;
      return z ^ (z >> 31);
    }
    double unit()
    {
      return (u64() >> 11) / 9007199254740992.0;
    }
  };

  std::vector<micm::Process> mechanism()
  {
    auto a = micm::Species("a"), b = micm::Species("b"), c = micm::Species("c"), d = micm::Species("d");
    std::vector<micm::Process> ps;
    ps.push_back(micm::Process::Create()
                     .SetReactants({ a })
                     .SetProducts({ micm::Yields(b, 1.0) })
                     .SetRateConstant(micm::ArrheniusRateConstant({ .A_ = 0.04, .C_ = 20.0 })));
    ps.push_back(micm::Process::Create()
                     .SetReactants({ b, b })
                     .SetProducts({ micm::Yields(b, 1.0), micm::Yields(c, 1.0) })
                     .SetRateConstant(micm::UserDefinedRateConstant({ .label_ = "r2" })));
    ps.push_back(micm::Process::Create()
                     .SetReactants({ b, c })
                     .SetProducts({ micm::Yields(a, 1.0), micm::Yields(c, 1.0) })
                     .SetRateConstant(micm::TroeRateConstant({ .k0_A_ = 1.2e-3, .kinf_A_ = 4.0e2 })));
    ps.push_back(micm::Process::Create()
                     .SetReactants({ c })
                     .SetProducts({ micm::Yields(d, 0.5) })
                     .SetRateConstant(micm::SurfaceRateConstant({ .label_ = "surf", .species_ = [] {
                                                                   micm::Species s("c");
                                                                   s.SetProperty<double>(micm::property_keys::GAS_DIFFUSION_COEFFICIENT, 2.3e-5);
                                                                   s.SetProperty<double>(micm::property_keys::MOLECULAR_WEIGHT, 0.05);
                                                                   return s;
                                                                 }(), .reaction_probability_ = 0.2 })));
    return ps;
  }

  // when set, threads call the documented three-argument overload Solve(time_step, state, parameters), every thread
  // passing the very parameters the solver was built with
  bool g_three_arg = false;

  /// `templ`: a State every thread may COPY instead of asking the solver for a new one (a copy is the thread's own
  /// State: nothing reachable from it may be shared with the template or with the other copies)
  template<class Solver, class Params, class StateT>
  std::string threadWork(Solver& solver, const Params& params, const StateT& templ, std::uint64_t seed, std::size_t ncell, int rounds)
  {
    Rng r{ seed };
    std::string out;
    auto state = (seed % 2) ? StateT(templ) : solver.GetState();
    for (int k = 0; k < rounds; ++k)
    {
      for (std::size_t c = 0; c < ncell; ++c)
      {
        state.conditions_[c].temperature_ = 200 + 100 * r.unit();
        state.conditions_[c].pressure_ = 1e4 + 9e4 * r.unit();
        state.conditions_[c].CalculateIdealAirDensity();
      }
      for (const char* n : { "a", "b", "c", "d" })
      {
        std::vector<double> v(ncell);
        for (auto& x : v)
          x = r.unit();
        state.SetConcentration(micm::Species(n), v);
      }
      std::vector<double> p(ncell);
      for (auto& x : p)
        x = 1e3 * r.unit();
      state.SetCustomRateParameter("r2", p);
      for (auto& x : p)
        x = 1e-7 * (1 + r.unit());
      state.SetCustomRateParameter("surf.effective radius [m]", p);
      for (auto& x : p)
        x = 1e9 * r.unit();
      state.SetCustomRateParameter("surf.particle number concentration [# m-3]", p);
      solver.CalculateRateConstants(state);
      double dt = 10.0 * r.unit() + 0.1;
      auto res = g_three_arg ? solver.Solve(dt, state, params) : solver.Solve(dt, state);
      if (g_three_arg)
        state.variables_.Max(0.0);   // the two-argument overload clamps; keep the two modes comparable
      out += vh::hexd(res.final_time_) + ":" + std::to_string(res.stats_.number_of_steps_) + ":";
      for (auto v : state.variables_.AsVector())
        out += vh::hexd(v) + ",";
      out += ";";
      if (k % 3 == 2)
      {
        if (seed % 4 < 2)
          state = solver.GetState();   // a fresh State mid-way
        else
          state = templ;               // ... or a copy-assigned one
      }
    }
    return out;
  }

  template<class Builder, class Params>
  std::string run(const char* name, const Params& params, std::size_t ncell, int nthreads, int rounds, std::uint64_t seed)
  {
    auto a = micm::Species("a"), b = micm::Species("b"), c = micm::Species("c"), d = micm::Species("d");
    auto solver = Builder(params)
                      .SetSystem(micm::System(micm::SystemParameters{ .gas_phase_ = micm::Phase{ std::vector<micm::Species>{ a, b, c, d } } }))
                      .SetReactions(mechanism())
                      .SetNumberOfGridCells(ncell)
                      .Build();
    const auto templ = solver.GetState();
    std::vector<std::string> serial(nthreads), par(nthreads);
    for (int t = 0; t < nthreads; ++t)
      serial[t] = threadWork(solver, params, templ, seed * 1000 + t, ncell, rounds);
    std::vector<std::thread> th;
    for (int t = 0; t < nthreads; ++t)
      th.emplace_back([&, t]() { par[t] = threadWork(solver, params, templ, seed * 1000 + t, ncell, rounds); });
    for (auto& x : th)
      x.join();
    int diff = 0;
    for (int t = 0; t < nthreads; ++t)
      if (serial[t] != par[t])
        ++diff;
    // serial again afterwards: the solver object must behave as before
    int after = 0;
    for (int t = 0; t < nthreads; ++t)
      if (threadWork(solver, params, templ, seed * 1000 + t, ncell, rounds) != serial[t])
        ++after;
    return std::string("tsan cfg=") + name + " threads=" + std::to_string(nthreads) + " differ=" + std::to_string(diff) +
           " after=" + std::to_string(after);
  }
}  // namespace

int main(int argc, char** argv)
{
  std::uint64_t seed = argc > 1 ? std::stoull(argv[1]) : 1;
  int nthreads = argc > 2 ? std::stoi(argv[2]) : 4;
  int rounds = argc > 3 ? std::stoi(argv[3]) : 4;
  g_three_arg = argc > 4 && std::string(argv[4]) == "3arg";
  using VM = micm::VectorMatrix<double, 3>;
  using VS = micm::SparseMatrix<double, micm::SparseMatrixVectorOrdering<3>>;
  auto rp = micm::RosenbrockSolverParameters::ThreeStageRosenbrockParameters();
  micm::BackwardEulerSolverParameters bp;
  std::cout << run<micm::CpuSolverBuilder<micm::RosenbrockSolverParameters>>("ros/standard", rp, 2, nthreads, rounds, seed) << std::endl;
  std::cout << run<micm::CpuSolverBuilder<micm::RosenbrockSolverParameters, VM, VS>>("ros/vector3", rp, 4, nthreads, rounds, seed + 1) << std::endl;
  std::cout << run<micm::CpuSolverBuilderInPlace<micm::RosenbrockSolverParameters, VM, VS>>("ros/vector3/inplace", rp, 5, nthreads, rounds, seed + 2) << std::endl;
  std::cout << run<micm::CpuSolverBuilder<micm::BackwardEulerSolverParameters>>("be/standard", bp, 2, nthreads, rounds, seed + 3) << std::endl;
  std::cout << run<micm::CpuSolverBuilder<micm::BackwardEulerSolverParameters, VM, VS>>("be/vector3", bp, 4, nthreads, rounds, seed + 4) << std::endl;
  return 0;
}
