// Correspondence harness driver: one case per stdin line, one result line per case.
#include "common.hpp"

#include <csignal>
#include <iostream>
#include <sys/resource.h>
#include <unistd.h>

namespace vh
{
  std::string dispatch(const std::string& cmd, Tok& t);
  std::map<std::string, Handler>& registry()
  {
    static std::map<std::string, Handler> r;
    return r;
  }
}  // namespace vh

int main(int argc, char** argv)
{
  std::ios::sync_with_stdio(false);
  std::string line;
  while (std::getline(std::cin, line))
  {
    vh::Tok t(line);
    std::string cmd = t.str();
    if (cmd.empty())
      continue;
    auto& reg = vh::registry();
    auto it = reg.find(cmd);
    if (it != reg.end())
      std::cout << vh::guarded([&]() { return it->second(t); }) << std::endl;
    else
      std::cout << vh::guarded([&]() { return vh::dispatch(cmd, t); }) << std::endl;
  }
  return 0;
}
